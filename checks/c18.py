"""C18 - ELF symbols are reported completely and faithfully.

Generated symbol tables: one symbol per (type 0-15 x binding 0-15 x visibility
0-3) = 1024 symbols plus zero-size / absolute / undefined / common / section /
long-named / nameless / huge-valued ones, for every e_machine that has its own
constant family (ARM, SPARC, PARISC, MIPS) and three that do not (x86-64,
PPC64, an unknown code), as ET_REL, ET_EXEC (and ET_DYN in the thorough tier).
Oracle: the generator's table: `symbol` yields every entry once, in order,
numbered from 0; name / address / size / label / binding / visibility = stored
fields; type and binding render with the machine's names as parsed from
/usr/include/elf.h (independently of known-elf.awk), and machine-specific
codes of different machines are never equal.  The repository's sample objects
are compared with `readelf -sW`.
"""
import itertools, json, os, re, subprocess
import common, drv
import elfgen as g, dwbattery
from dwbattery import Battery

MACHINES = ["EM_ARM", "EM_SPARC", "EM_PARISC", "EM_MIPS", "EM_X86_64", "EM_PPC64", 0x1234]


def elf_names():
    """(generic, per-arch) name tables for STT / STB parsed from elf.h: {set: {value: name}}, {set: {arch: {value: name}}}"""
    ems = {n[3:] for n in g.ELF if n.startswith("EM_") and n != "EM_NONE"}
    generic = {"STT": {}, "STB": {}, "STV": {}}
    arch = {"STT": {}, "STB": {}}
    for n, v in g.ELF.items():
        m = re.fullmatch(r"(STT|STB|STV)_(\w+)", n)
        if not m or re.search(r"(_NUM|(LO|HI)(OS|PROC))$", n) or n.endswith("_NUM"):
            continue
        s, rest = m.groups()
        a = next((e for e in ems if rest.startswith(e + "_")), None)
        if a is not None and s in arch:
            arch[s].setdefault(a, {})[v] = n
        else:
            generic[s][v] = n
    return generic, arch


def sym_table():
    syms = []
    for t in range(16):
        for b in range(16):
            for v in range(4):
                syms.append(g.Sym(b"s_%d_%d_%d" % (t, b, v), 0x10 + t, b, t, b, v, 0xfff1))
    return syms


def build(machine, etype):
    text = g.Section(".text", b"\x90" * 64, "SHT_PROGBITS", g.ELF["SHF_ALLOC"] | g.ELF["SHF_EXECINSTR"], addr=0 if etype == 1 else 0x401000, addralign=16)
    syms = sym_table()
    syms += [g.Sym(b"", 0, 0, 3, 0, 0, text), g.Sym(b"undef", 0, 0, 0, 1, 0, 0), g.Sym(b"common", 8, 8, 1, 1, 0, 0xfff2), g.Sym(b"zero", 0x20, 0, 2, 1, 0, 0xfff1),
             g.Sym(b"L" * 300, 0x21, 1, 1, 0, 0, 0xfff1), g.Sym(b"s_1_1_1", 5, 5, 1, 1, 1, 0xfff1), g.Sym(b"other", 1, 2, 1, 2, 0x63, 0xfff1),
             g.Sym(b"huge", (1 << 64) - 1, (1 << 64) - 1, 1, 1, 0, 0xfff1), g.Sym(b"\xff\x01", 7, 7, 2, 1, 2, 0xfff1)]
    m = g.ELF[machine] if isinstance(machine, str) else machine
    root = g.cu_root(b"s.c", children=[g.Die("DW_TAG_variable", [g.Attr("DW_AT_name", "DW_FORM_string", b"v")])])
    return g.ElfFile([g.Unit(root, 4)], syms, e_machine=m, e_type=etype, sections=[text]), syms


BAT = Battery({
    "symbols": ("symbol", None),
    "names": ("symbol name", None),
    "addresses": ("symbol address", None),
    "sizes": ("symbol size", None),
    "labels": ("symbol label", None),
    "bindings": ("symbol binding", None),
    "visibilities": ("symbol visibility", None),
    "label_text": ('symbol label "%s"', None),
    "binding_text": ('symbol binding "%s"', None),
    "visibility_text": ('symbol visibility "%s"', None),
    "positions": ("symbol pos", None),
    "raw_symbols": ("raw symbol", None),
    "L_label_is_type_word": ("symbol ?(label value != label value)", None),
})


def expected(syms, machine):
    fid = 1
    generic, arch = elf_names()
    allsyms = [g.Sym(shndx=0)] + syms
    mname = machine[3:] if isinstance(machine, str) else None
    e = {}
    e["symbols"] = ["SY:f%d:%d:%s@%d" % (fid, i, drv.hx(s.name), i) for i, s in enumerate(allsyms)]
    e["raw_symbols"] = e["symbols"]
    e["names"] = ["s:x%s@0" % s.name.hex() for s in allsyms]
    e["addresses"] = ["c:Dwarf_Address:%d@0" % s.value for s in allsyms]
    e["sizes"] = ["c:dec:%d@0" % s.size for s in allsyms]
    e["labels"] = ["c:STT_:%d@0" % s.type for s in allsyms]
    e["bindings"] = ["c:STB_:%d@0" % s.bind for s in allsyms]
    e["visibilities"] = ["c:STV_:%d@0" % (s.other & 3) for s in allsyms]
    e["positions"] = ["c:pos:%d@0" % i for i in range(len(allsyms))]
    e["L_label_is_type_word"] = []

    def text(setname, v):
        a = arch.get(setname, {}).get(mname, {})
        if v in a:
            return a[v]
        return generic[setname].get(v)

    e["_label_names"] = [text("STT", s.type) for s in allsyms]
    e["_binding_names"] = [text("STB", s.bind) for s in allsyms]
    e["_visibility_names"] = [text("STV", s.other & 3) for s in allsyms]
    return e


def run_case(d, machine, etype, path):
    elf, syms = build(machine, etype)
    exp = expected(syms, machine)
    names = {k: exp.pop(k) for k in ("_label_names", "_binding_names", "_visibility_names")}
    nq, nr, bad = dwbattery.run_file(d, BAT, elf, path, exp)
    # renderings: named codes must print the machine's name
    rs = d.batch(["open id=d1 path=" + drv.hx(path)] + ["qrun q=%s i=d1 lim=4000" % q for q in ("label_text", "binding_text", "visibility_text")] + ["close id=d1"])
    for q, key, r in zip(("label_text", "binding_text", "visibility_text"), ("_label_names", "_binding_names", "_visibility_names"), rs[1:-1]):
        got = [drv.unhx(x.split(":")[1].split("@")[0]).decode("latin-1") if x.startswith("s:") else x for x in r.results()]
        if r.crash or len(got) != len(names[key]):
            bad.append((q, "`%s` yields %d results, expected %d %r" % (BAT.items[q][0], len(got), len(names[key]), r.crash and r.crash[0])))
            if r.crash:
                d.batch(["open id=d1 path=" + drv.hx(path)])
            continue
        for i, (gv, ev) in enumerate(zip(got, names[key])):
            nr += 1
            if ev is not None and gv != ev:
                bad.append((q, "symbol #%d: `%s` renders `%s`, elf.h calls this code %s on this machine" % (i, BAT.items[q][0], gv, ev)))
                break
    return nq + 3, nr, bad


def cross_machine(d, paths):
    """Machine-specific codes of different machines never compare equal; common codes do."""
    bad, n = [], 0
    for (ma, pa), (mb, pb) in itertools.combinations(paths.items(), 2):
        rs = d.batch(["open id=d1 path=" + drv.hx(pa), "open id=d2 path=" + drv.hx(pb)])
        # symbol index of (type t, bind b, vis 0) = 1 + (t*16 + b)*4
        for t, b, same_t, same_b in [(2, 1, True, True), (13, 13, False, False), (15, 1, None, True), (11, 12, None, None)]:
            idx = 1 + (t * 16 + b) * 4
            for word, same in (("label", same_t), ("binding", same_b)):
                if same is None:
                    continue
                arch_a = ma in ("EM_ARM", "EM_SPARC", "EM_PARISC") if word == "label" else ma == "EM_MIPS"
                arch_b = mb in ("EM_ARM", "EM_SPARC", "EM_PARISC") if word == "label" else mb == "EM_MIPS"
                q = "(|A B| A symbol (pos == %d) %s B symbol (pos == %d) %s ?eq)" % (idx, word, idx, word)
                r = d.run(q, i="d1,d2", lim=3)
                n += 1
                holds = bool(r.results())
                if same and not holds:
                    bad.append(("cross:%s:%s:%s:%d" % (ma, mb, word, t), "%s of a common code (type %d / binding %d) differs between %s and %s" % (word, t, b, ma, mb)))
                if same is False and holds and (arch_a or arch_b):
                    bad.append(("cross:%s:%s:%s:%d" % (ma, mb, word, t), "machine-specific %s code 13 of %s equals that of %s" % (word, ma, mb)))
        # one operator instance fed symbols of two machines, in both orders: what it yields for a file must not depend
        # on the file it saw before (e.g. a constant domain remembered from the first input)
        # (rendered: the canonical form names a domain by its prefix, which machine-specific families share)
        for word in ('label "%s"', 'binding "%s"', 'visibility "%s"', "size", "name", "label", "binding"):
            for first, second, tag in (("A", "B", "ab"), ("B", "A", "ba")):
                rs = d.batch([drv.run_cmd("(|A B| (%s, %s) symbol %s)" % (first, second, word), i="d1,d2", lim=5000),
                              drv.run_cmd("(|A B| %s symbol %s)" % (first, word), i="d1,d2", lim=5000),
                              drv.run_cmd("(|A B| %s symbol %s)" % (second, word), i="d1,d2", lim=5000)])
                n += 1
                alone = rs[1].results() + rs[2].results()
                if any(r.crash for r in rs) or rs[0].results() != alone:
                    k = next((i for i, (x, y) in enumerate(zip(rs[0].results(), alone)) if x != y), None)
                    detail = "" if k is None else ": result #%d is %s, alone it is %s" % (k, rs[0].results()[k], alone[k])
                    bad.append(("stream:%s:%s:%s:%s" % (ma, mb, word, tag),
                                "`symbol %s` fed the files of %s and %s in one stream (%s first) differs from the two files taken alone%s" % (
                                    word, ma, mb, ma if first == "A" else mb, detail)))
        d.batch(["close id=d1", "close id=d2"])
    return n, bad


def readelf_syms(path):
    try:
        out = subprocess.run(["readelf", "-sW", path], stdout=subprocess.PIPE, stderr=subprocess.DEVNULL, timeout=60).stdout.decode("latin-1")
    except (OSError, subprocess.TimeoutExpired):
        return None
    rows, on = [], False
    for l in out.splitlines():
        if l.startswith("Symbol table '.symtab'"):
            on = True
            continue
        if l.startswith("Symbol table"):
            on = False
        m = re.match(r"\s*(\d+):\s+([0-9a-f]+)\s+(\d+|0x[0-9a-f]+)\s+(\S+)\s+(\S+)\s+(\S+)", l)
        if on and m:
            rows.append((int(m.group(1)), int(m.group(2), 16), int(m.group(3), 0)))
    return rows


def sample_check(d, path):
    rows = readelf_syms(path)
    if not rows:
        return 0, []
    rs = d.batch(["open id=d1 path=" + drv.hx(path), drv.run_cmd("symbol (|S| [S pos, S address, S size])", i="d1", lim=100000), "close id=d1"])
    if not rs[0].lines or not rs[0].lines[0].startswith("ok"):
        return 0, []
    got = []
    for x in rs[1].results():
        got.append(tuple(int(p.split(":")[2].split("@")[0]) for p in x[1:-3].split(",")))
    # ET_REL: libdwfl relocates section-relative values; compare count, order and sizes only there
    exp = [(i, v, s) for (i, v, s) in rows]
    bad = []
    if len(got) != len(exp):
        bad.append(("sample:%s" % os.path.basename(path), "%s: `symbol` yields %d entries, readelf -sW lists %d" % (path, len(got), len(exp))))
    else:
        for g_, e_ in zip(got, exp):
            if g_[0] != e_[0] or g_[2] != e_[2]:
                bad.append(("sample:%s" % os.path.basename(path), "%s: symbol %r differs from readelf's %r (index, value, size)" % (path, g_, e_)))
                break
    return len(got), bad


def archive_case(d, counts, base):
    """`symbol` on an ar archive: every member's table, one after the other, numbering continued."""
    paths, exp_names, exp_idx = [], [], []
    for k, n in enumerate(counts):
        p = "%s-m%d.o" % (base, k)
        syms = [g.Sym(b"m%d_%d" % (k, i), 0x10 + i, 1, 2, 1, 0, 0xfff1) for i in range(n)]
        root = g.cu_root(b"m%d.c" % k, children=[g.Die("DW_TAG_variable", [g.Attr("DW_AT_name", "DW_FORM_string", b"v%d" % k)])])
        g.ElfFile([g.Unit(root, 4)], syms, e_type=1, with_symtab=True).write(p)
        paths.append(p)
        exp_names += [b""] + [s_.name for s_ in syms]
        exp_idx += list(range(n + 1))
    ar = base + ".a"
    if os.path.exists(ar):
        os.unlink(ar)
    subprocess.run(["ar", "rc", ar] + paths, check=True)
    rs = d.batch(["open id=d1 path=" + drv.hx(ar), drv.run_cmd("symbol", i="d1", lim=10000), "close id=d1"])
    bad = []
    exp = ["SY:f1:%d:%s@%d" % (ix, drv.hx(nm), pos) for pos, (ix, nm) in enumerate(zip(exp_idx, exp_names))]
    got = rs[1].results()
    if rs[1].crash or got != exp:
        bad.append(("archive", "archive with members of %r symbols: `symbol` yields %s" % (list(counts), dwbattery.summarize(got, exp))))
    for p in paths + [ar]:
        os.unlink(p)
    return len(exp), bad


def _worker(d, chunk, extra):
    os.makedirs(dwbattery.DWDIR, exist_ok=True)
    out = {"files": 0, "queries": 0, "results": 0, "bad": []}
    for kind, arg in chunk:
        if kind == "gen":
            machine, etype = arg
            path = os.path.join(dwbattery.DWDIR, "c18-%d.o" % os.getpid())
            nq, nr, bad = run_case(d, machine, etype, path)
            os.unlink(path)
        elif kind == "archive":
            nr, bad = archive_case(d, arg, os.path.join(dwbattery.DWDIR, "c18-%d" % os.getpid()))
            nq = 1
        elif kind == "cross":
            paths = {}
            for m in arg:
                p = os.path.join(dwbattery.DWDIR, "c18-%d-%s.o" % (os.getpid(), m))
                build(m, 1)[0].write(p)
                paths[m] = p
            nq, bad = cross_machine(d, paths)
            nr = nq
            for p in paths.values():
                os.unlink(p)
        else:
            nr, bad = sample_check(d, arg)
            nq = 1
        out["files"] += 1
        out["queries"] += nq
        out["results"] += nr
        for qid, what in bad[:5]:
            out["bad"].append(("%s:%s|%s" % (kind, json.dumps(arg), qid), "%s %s: %s" % (kind, arg, what), {"kind": kind, "arg": arg, "qid": qid}))
    return out


def replay(case):
    ctx = common.Ctx("C18", "quick")
    d = drv.Drv(ctx.bin("zwdrv"), "full", timeout=120, cmd_timeout=60)
    try:
        arg = case["arg"]
        if case["kind"] == "archive":
            arg = tuple(arg)
        if case["kind"] == "gen":
            arg = (arg[0], arg[1])
        r = _worker(d, [(case["kind"], arg)], None)
        return any(b[2]["qid"] == case["qid"] for b in r["bad"])
    finally:
        d.close()


def main(ctx):
    bins = ctx.build(["zwdrv"])
    thorough = ctx.tier == "thorough"
    etypes = (1, 2, 3) if thorough else (1, 2)
    tasks = [[("gen", (m, t))] for m in MACHINES for t in etypes]
    tasks.append([("cross", ["EM_ARM", "EM_SPARC", "EM_PARISC", "EM_MIPS", "EM_X86_64"])])
    sizes = (0, 2, 5)
    tasks += [[("archive", list(c))] for n_ in (2, 3) for c in itertools.product(sizes, repeat=n_)]
    samples = [os.path.join("/repo/tests", n) for n in ("y.o", "y-mips.o", "float_const_value.o-armv7hl", "float_const_value.o-ppc64", "typedef.o", "bitcount.o", "twocus", "a1.out")]
    tasks += [[("sample", s)] for s in samples if os.path.exists(s)]
    for r in common.pmap(ctx, _worker, tasks, bins["zwdrv"], "full", timeout=300, cmd_timeout=120):
        for k in ("files", "queries", "results"):
            ctx.count(k, r[k])
        for key, what, case in r["bad"]:
            ctx.violation(key, what, case)
    generic, arch = elf_names()
    ctx.sample({"symbol": "type 13 binding 13 on EM_ARM", "expect": "label renders STT_ARM_TFUNC, binding STB_LOPROC+0-style generic text; not equal to SPARC's type 13"})
    n = ctx.counts.get("results", 0)
    cov = {
        "states": ctx.counts.get("files", 0), "transitions": ctx.counts.get("queries", 0), "traces_validated_against_impl": ctx.counts.get("queries", 0),
        "evaluations": n, "distinct_nontrivial": n,
        "rule": "state = one generated symbol table (1034 entries) for one (machine, ELF type); every field of every entry as reported by the engine is compared with the stored one; "
                "renderings of codes that elf.h names are compared with elf.h; distinct = field values compared",
        "bounds": {"machines": [str(m) for m in MACHINES], "elf_types": list(etypes), "symbols_per_file": len(sym_table()) + 10, "archives": "all ordered pairs and triples of members with 0/2/5 symbols",
                   "arch_specific_names": {k: {a: sorted(v.values()) for a, v in d_.items()} for k, d_ in arch.items()}},
    }
    return ctx.finish("model_checking", cov, [
        "the generator's symbol table is the reference; elf.h is parsed independently of known-elf.awk for the names",
        "codes without a name in elf.h are only required not to crash and to keep their numeric value",
        "sample objects are cross-checked against `readelf -sW` (index and size; values of relocatable files are adjusted by libdwfl)",
    ], replay)
