"""C13 - no memory error, undefined behaviour, leak or broken state life cycle on any run.

Monitors (active in every execution of every check, and here): ASan + UBSan
(fatal), asserts enabled, and the DWGREP_VERIF shadow map in scon that aborts
on a state constructed twice / used before construction / destroyed twice /
overlapping a live state / still alive when the state area dies.
Own enumeration:
  (1) for every program of a corpus of stateful constructs and every Z_3
      transformer up to a size bound: abandon the result set after k pulls for
      every k = 0..n+1, then destroy result and query;
  (2) every rejected query of the C14 token space up to a length bound;
  (3) values that outlive their query and result set (closures applied by a
      later query, sequences, strings).
Leaks are decided exactly: the driver reports the allocator's live-byte delta
across each case (second repetition, so caches are warm); any non-zero delta
is confirmed by LeakSanitizer in a fresh process, whose allocation stacks
identify the leak.
"""
import glob, itertools, os, re
import common, drv, zwgen, zwmodel
import c12, c14

PARSE_EXC_KEY = "leak:rejected-query:exception-through-yyparse"


def abandon_cmds(q, k, inp):
    return (["allocs", "qparse id=q q=" + drv.hx(q), "exec id=r q=q s=" + inp] + ["pull id=r"] * k + ["rdestroy id=r", "qdestroy id=q", "allocs"])


def allocs_delta(rs):
    try:
        return int(rs[-1].lines[0].split()[1]) - int(rs[0].lines[0].split()[1])
    except (IndexError, ValueError):
        return None


def lsan_confirm(binary, voc, cmds, setup=()):
    """Run CMDS in a fresh process, then ask LSan.  Returns (leaked?, report text)."""
    d = drv.Drv(binary, voc, detect_leaks=True)
    try:
        for c in setup:
            d.cmd(c)
        for r in d.batch(list(cmds)):
            if r.crash:
                return True, "crashed: %s %s" % (r.crash[0], r.crash[1][-800:])
        r = d.cmd("leakcheck")
        rep = ""
        for f in glob.glob(d.logbase + "*"):
            try:
                rep += open(f, errors="replace").read()
            except OSError:
                pass
        leaked = bool(r.lines) and r.lines[0] == "ok 1"
        return leaked, rep
    finally:
        d.close()


def leak_sites(report):
    """Allocation call sites (innermost libzwerg frame of each leak) named in an LSan report."""
    sites = set()
    for block in report.split("leak of ")[1:]:
        for line in block.splitlines():
            m = re.search(r"#\d+ 0x[0-9a-f]+ in (.+?) (/repo/\S+|/verif/\S+|\()", line)
            if m and "operator new" not in m.group(1) and "malloc" not in m.group(1):
                sites.add(re.sub(r"\(.*", "", m.group(1))[:60])
                break
    return sorted(sites)


def _abandon_worker(d, chunk, extra):
    out = {"cases": 0, "steps": 0, "bad": [], "candidates": []}
    for sname, prefix in extra["inputs"].items():
        d.cmd("mkstack id=%s p=%s" % (sname, drv.hx(prefix)))
    for q, n_by_input in chunk:
        for sname, n in n_by_input.items():
            for k in range(0, n + 3):
                cmds = abandon_cmds(q, k, sname)
                warm = d.batch(cmds)               # first repetition warms caches
                crash = next((r for r in warm if r.crash), None)
                rs = warm if crash else d.batch(cmds)
                out["cases"] += 1
                out["steps"] += len(cmds)
                crash = crash or next((r for r in rs if r.crash), None)
                if crash:
                    out["bad"].append(("abandon:%s|%s|%d" % (q, sname, k), "`%s` on %s abandoned after %d pulls: %s %s" % (
                        q, sname, k, crash.crash[0], crash.crash[1][-700:]), {"part": "abandon", "q": q, "s": sname, "k": k, "inputs": extra["inputs"]}))
                    for sn, prefix in extra["inputs"].items():
                        d.cmd("mkstack id=%s p=%s" % (sn, drv.hx(prefix)))
                    continue
                delta = allocs_delta(rs)
                if delta:
                    out["candidates"].append((q, sname, k, delta))
    return out


def _reject_worker(d, task, extra):
    out = {"texts": 0, "rejected": 0, "bad": [], "classes": {}}
    texts = list(c14.gen_texts(task))
    rs = d.batch(["parselen q=%s" % drv.hx(t) for t in texts])
    for t, r in zip(texts, rs):
        out["texts"] += 1
        kind, detail = c14.classify(r)
        if kind == "crash":
            out["bad"].append(("text:" + t.hex(), "query text %r: %s" % (t, detail), {"part": "reject", "hex": t.hex()}))
            continue
        if kind != "rejected":
            if r.mem:
                out["classes"].setdefault("(accepted)", []).append((t.hex(), r.mem))
            continue
        out["rejected"] += 1
        if r.mem:
            mc = c14.msg_class(detail)
            lst = out["classes"].setdefault(mc, [])
            # plain syntax errors must never leak: keep every candidate; errors raised by exceptions are one recorded
            # finding (keyed on the call site), three representatives per worker are enough there
            if len(lst) < (200 if mc == "syntax error" else 3):
                lst.append((t.hex(), r.mem))
    return out


def outlive_cases():
    """(name, commands, expected final results)"""
    cases = []
    for val, use, exp in [
        ("(|A| {A 1 add})", "apply", None),
        ("[1, [2, \"x\"]]", "elem", None),
        ('"str"', "length", None),
        ("(|A| let B := A 2 mul; {B A add})", "apply", None),
        ("{(1, 2)}", "apply", None),
        ("{{3}}", "apply apply", None),
    ]:
        cmds = ["allocs", "mkstack id=in p=" + drv.hx("5"), "qparse id=q1 q=" + drv.hx(val), "exec id=r1 q=q1 s=in", "pull id=r1 keep=v",
                "qdestroy id=q1", "rdestroy id=r1", "qparse id=q2 q=" + drv.hx(use), "exec id=r2 q=q2 s=v", "pull id=r2", "pull id=r2", "pull id=r2",
                "rdestroy id=r2", "qdestroy id=q2", "showstack id=v", "sdestroy id=v", "sdestroy id=in", "allocs"]
        cases.append(("%s then %s" % (val, use), cmds))
    return cases


FAILX = "(7, 8 drop drop drop drop)"      # on the input [5 1]: yields once, then the next pull fails hard (stack underflow)


def failure_programs():
    """A hard run-time failure after one result inside every kind of sub-expression context."""
    X = FAILX
    ctxs = ["if %s then 1 else 2", "if 1 then %s else 2", "if !() then 1 else %s", "(%s, 9)", "(9, %s)", "(%s || 9)", "(!() || %s)", "[%s]", "?(%s)", "!(%s !())",
            "let A := %s; A", "(%s ?(9 ?lt))*", "(%s ?(9 ?lt))+", '"%%( %s %%)"', '"%%( 1 %%)%%( %s %%)"', "{%s} apply", "(%s == 7)", "(7 == %s)", "(|A| %s)", "[|A| %s]",
            "?(|A| %s)", "%s [1, 2] elem", "[1, 2] elem %s", "%s (1 add, 2 add)", "(%s)?", "let F := {%s}; F F"]
    out = [c % X for c in ctxs]
    # nested twice
    inner = ["if %s then 1 else 2" % X, "[%s]" % X, "(%s, 9)" % X, "(%s || 9)" % X, "?(%s)" % X, "let A := %s; A" % X]
    for c in ctxs[:12]:
        for i in inner:
            out.append(c % ("(" + i + ")"))
    return out


def failure_cmds(q, extra_pulls):
    cmds = ["allocs", "qparse id=q q=" + drv.hx(q), "exec id=r q=q s=s1"] + ["pull id=r"] * 6 + ["pull id=r"] * extra_pulls + ["rdestroy id=r", "qdestroy id=q", "allocs"]
    return cmds


def _failure_worker(d, chunk, extra):
    out = {"cases": 0, "steps": 0, "bad": [], "candidates": [], "errors_seen": 0}
    d.cmd("mkstack id=s1 p=" + drv.hx("5 1"))
    for q in chunk:
        for extra_pulls in (0, 3):
            cmds = failure_cmds(q, extra_pulls)
            warm = d.batch(cmds)
            crash = next((r for r in warm if r.crash), None)
            rs = warm if crash else d.batch(cmds)
            out["cases"] += 1
            out["steps"] += len(cmds)
            crash = crash or next((r for r in rs if r.crash), None)
            if crash:
                out["bad"].append(("failure:%s|%d" % (q, extra_pulls), "`%s` fails at run time inside a sub-expression, then %s: %s %s" % (
                    q, "is destroyed" if not extra_pulls else "is pulled %d more times and destroyed" % extra_pulls, crash.crash[0], crash.crash[1][-600:]),
                    {"part": "failure", "q": q, "extra": extra_pulls}))
                d.cmd("mkstack id=s1 p=" + drv.hx("5 1"))
                continue
            if any(l.startswith("e ") for r in rs for l in r.lines):
                out["errors_seen"] += 1
            if allocs_delta(rs):
                out["candidates"].append((q, extra_pulls))
    return out


def replay(case):
    ctx = common.Ctx("C13", "quick")
    b = ctx.bin("zwdrv")
    if case["part"] == "failure":
        setup = ["mkstack id=s1 p=" + drv.hx("5 1")]
        cmds = failure_cmds(case["q"], case["extra"])
        if case.get("leak"):
            return lsan_confirm(b, "core", cmds, setup)[0]
        d = drv.Drv(b, "core")
        try:
            for c in setup:
                d.cmd(c)
            return any(r.crash for r in d.batch(cmds))
        finally:
            d.close()
    if case["part"] == "abandon":
        setup = ["mkstack id=%s p=%s" % (s, drv.hx(p)) for s, p in case["inputs"].items()]
        cmds = abandon_cmds(case["q"], case["k"], case["s"])
        if case.get("leak"):
            return lsan_confirm(b, "core", cmds, setup)[0]
        d = drv.Drv(b, "core")
        try:
            for c in setup:
                d.cmd(c)
            return any(r.crash for r in d.batch(cmds))
        finally:
            d.close()
    if case["part"] == "reject":
        t = bytes.fromhex(case["hex"])
        if case.get("leak"):
            return lsan_confirm(b, "core", ["parselen q=%s" % drv.hx(t)])[0]
        d = drv.Drv(b, "core")
        try:
            return c14.classify(d.cmd("parselen q=%s" % drv.hx(t)))[0] == "crash"
        finally:
            d.close()
    if case["part"] == "outlive":
        cmds = dict(outlive_cases())[case["name"]]
        return lsan_confirm(b, "core", cmds)[0]
    return False


def main(ctx):
    bins = ctx.build(["zwdrv"])
    b = bins["zwdrv"]
    thorough = ctx.tier == "thorough"
    # ---------------- (1) abandonment
    inputs = {"s0": "0", "s1": "5 1", "s2": "2"}
    progs = [(q, {"s1": None}) for q in c12.CORE]
    tab = zwgen.by_size(3)
    sizes = [1, 2, 3]
    zs = [zwmodel.render(t) for s in sizes for _, t in tab[s]]
    if not thorough:
        zs = zs[:105] + zs[105::4]
    progs += [(q, {"s0": None, "s2": None}) for q in zs]
    # number of results of each program on each input (one exploratory run each)
    d = drv.Drv(b, "core")
    for sname, prefix in inputs.items():
        d.cmd("mkstack id=%s p=%s" % (sname, drv.hx(prefix)))
    plan = []
    for q, ins in progs:
        nb = {}
        for sname in ins:
            r = d.run(q, p=inputs[sname], lim=40)
            if r.crash or r.has("qerr"):
                continue
            nb[sname] = min(len(r.results()), 12)
        if nb:
            plan.append((q, nb))
    d.close()
    cands = []
    for r in common.pmap(ctx, _abandon_worker, common.chunks(plan, 8), b, "core", extra={"inputs": inputs}, timeout=60):
        ctx.count("abandon_cases", r["cases"])
        ctx.count("api_steps", r["steps"])
        for key, what, case in r["bad"]:
            ctx.violation(key, what, case)
        cands += r["candidates"]
    ctx.count("abandon_leak_candidates", len(cands))
    for q, sname, k, delta in cands[:40]:
        setup = ["mkstack id=%s p=%s" % (s, drv.hx(p)) for s, p in inputs.items()]
        leaked, rep = lsan_confirm(b, "core", abandon_cmds(q, k, sname), setup)
        if leaked:
            ctx.violation("leak:abandon:%s|%s|%d" % (q, sname, k), "`%s` on %s abandoned after %d pulls leaks %d bytes: allocated at %s\n%s" % (
                q, sname, k, delta, leak_sites(rep), rep[:1500]), {"part": "abandon", "q": q, "s": sname, "k": k, "inputs": inputs, "leak": True})
        else:
            ctx.count("abandon_candidates_not_confirmed_by_lsan")
    # ---------------- (1b) a hard run-time failure inside every kind of sub-expression context
    fcands = []
    for r in common.pmap(ctx, _failure_worker, common.chunks(failure_programs(), 6), b, "core", timeout=60):
        ctx.count("failure_cases", r["cases"])
        ctx.count("failure_cases_where_the_error_surfaced", r["errors_seen"])
        ctx.count("api_steps", r["steps"])
        for key, what, case in r["bad"]:
            ctx.violation(key, what, case)
        fcands += r["candidates"]
    for q, extra_pulls in fcands[:40]:
        leaked, rep = lsan_confirm(b, "core", failure_cmds(q, extra_pulls), ["mkstack id=s1 p=" + drv.hx("5 1")])
        if leaked:
            ctx.violation("leak:failure:%s|%d" % (q, extra_pulls), "`%s` failing at run time inside a sub-expression leaks: allocated at %s\n%s" % (q, leak_sites(rep), rep[:1500]),
                          {"part": "failure", "q": q, "extra": extra_pulls, "leak": True})
    # ---------------- (2) rejected queries
    tasks = []
    nall, ncore = len(c14.ALL_TOKENS), len(c14.CORE_TOKENS)
    for joiner in (" ", ""):
        for length in ((1, 2, 3) if thorough else (1, 2)):
            tasks += [("tok", "all", length, f, joiner) for f in range(nall)]
        tasks += [("tok", "core", 4 if thorough else 3, f, joiner) for f in range(ncore)]
    lits = c14.int_literals() + c14.unterminated()
    tasks += [("list", lits[i:i + 200]) for i in range(0, len(lits), 200)]
    classes = {}
    for r in common.pmap(ctx, _reject_worker, tasks, b, "core", track=True, timeout=60, cmd_timeout=3):
        ctx.count("texts", r["texts"])
        ctx.count("rejected_texts", r["rejected"])
        for key, what, case in r["bad"]:
            ctx.violation(key, what, case)
        for mc, lst in r["classes"].items():
            classes.setdefault(mc, [])
            classes[mc] += lst
    ctx.count("message_classes_with_nonzero_delta", len(classes))
    for mc, lst in sorted(classes.items()):
        # confirm up to three representatives of each message class in fresh processes
        for hx_, delta in (lst[:400] if mc in ("syntax error", "(accepted)") else lst[:3]):
            t = bytes.fromhex(hx_)
            leaked, rep = lsan_confirm(b, "core", ["parselen q=%s" % drv.hx(t)])
            if not leaked:
                ctx.count("reject_candidates_not_confirmed_by_lsan")
                continue
            through_parser = "yyparse" in rep
            # a syntax error inside a `%( %)` splice is found by the nested parse that the LEXER runs, and reaches the
            # outer parser as an exception thrown from yylex - the same call site as the other exception classes
            by_exception = (mc != "syntax error" and mc != "(accepted)") or (mc == "syntax error" and b"%(" in t)
            if through_parser and by_exception:
                # recorded finding: exceptions thrown by the lexer or by grammar actions unwind through the
                # generated C parser, which cannot release its value stack; keyed on that call site
                ctx.violation(PARSE_EXC_KEY, "rejected query %r (%s) leaks %d bytes allocated at %s" % (t, mc, delta, leak_sites(rep)),
                              {"part": "reject", "hex": hx_, "leak": True})
            else:
                ctx.violation("leak:text:" + hx_, "query text %r (%s) leaks %d bytes allocated at %s\n%s" % (t, mc, delta, leak_sites(rep), rep[:1500]),
                              {"part": "reject", "hex": hx_, "leak": True})
    # ---------------- (3) values outliving query and result
    for name, cmds in outlive_cases():
        d = drv.Drv(b, "core")
        d.batch(cmds)
        rs = d.batch(cmds)
        d.close()
        ctx.count("outlive_cases")
        crash = next((r for r in rs if r.crash), None)
        if crash:
            ctx.violation("outlive:" + name, "value outliving its query (%s): %s %s" % (name, crash.crash[0], crash.crash[1][-600:]), {"part": "outlive", "name": name})
            continue
        if allocs_delta(rs):
            leaked, rep = lsan_confirm(b, "core", cmds)
            if leaked:
                ctx.violation("leak:outlive:" + name, "value outliving its query (%s) leaks: %s\n%s" % (name, leak_sites(rep), rep[:1200]), {"part": "outlive", "name": name})
    ctx.sample({"case": "exec `((1 add, 2 add) ?(6 ?lt))*` on [5 1], pull 2 of 5, destroy result, destroy query", "oracle": "no sanitizer/hook report, live heap bytes unchanged"})
    ctx.sample({"case": "parse `\"%( [`", "oracle": "rejected; live heap bytes unchanged (else LSan in a fresh process decides)"})
    n = ctx.counts.get("abandon_cases", 0) + ctx.counts.get("failure_cases", 0) + ctx.counts.get("texts", 0) + ctx.counts.get("outlive_cases", 0)
    cov = {
        "states": n,
        "transitions": ctx.counts.get("api_steps", 0) + ctx.counts.get("texts", 0),
        "traces_validated_against_impl": n,
        "evaluations": n,
        "distinct_nontrivial": n,
        "rule": "state = (program, input, number of pulls before abandonment) or one rejected query text or one outliving-value scenario, each executed "
                "under ASan+UBSan+asserts+scon life-cycle hook with exact live-heap accounting; LSan in a fresh process confirms every non-zero delta",
        "bounds": {"abandonment": "k = 0..n+2 pulls for %d programs" % len(plan), "runtime_failures": "%d programs: a hard failure after one result inside each of 26 sub-expression contexts and 72 two-level nestings, destroyed at once or pulled 3 more times first" % len(failure_programs()), "rejected_texts": "token strings up to length %d (full alphabet) / %d (core alphabet), literals, unterminated forms" % (3 if thorough else 2, 4 if thorough else 3)},
        "message_classes_with_delta": {k: len(v) for k, v in classes.items()},
    }
    return ctx.finish("model_checking", cov, [
        "every other check also runs on the instrumented build: a sanitizer or hook report there fails that check",
        "coverage-guided mutation named in the quantifier is a sampling technique and is not used; the exhaustive token space replaces it",
        "live-heap accounting relies on ASan's allocator statistics; LeakSanitizer decides reachability",
    ], replay)
