"""C20 - printed values are faithful: constants round-trip and renderings are unambiguous.

(1) EVERY named constant of the vocabulary: `NAME value` is the number that
    /usr/include/dwarf.h / elf.h give that name (parsed independently of the
    awk scripts); `NAME "%s"` is a word that evaluates to a constant == NAME.
(2) Integers: a boundary lattice x {dec, hex, oct, bin} x sign: the text of
    "%s", of %d %x %o %b, and of the CLI's full rendering, read back as a
    literal, gives an equal value of the same domain.
(3) Strings: all byte strings up to a length bound over an alphabet with quote,
    backslash, percent, NUL, control and high bytes and digits, alone and
    inside sequences: the CLI's brief (quoted) rendering, fed back as a query,
    yields the same bytes - hence different values never print alike.
"""
import itertools, os, re, subprocess
import common, drv
import elfgen as g

ALPHABET = [b"a", b'"', b"\\", b"%", b"\x00", b"\n", b"\t", b"\x01", b"\x7f", b"\x80", b"\xff", b"0", b"7", b"x", b" "]
LO, HI = -(1 << 63), (1 << 64) - 1


def int_lattice(tier):
    ks = range(0, 65) if tier == "thorough" else [0, 1, 3, 4, 7, 8, 9, 10, 16, 31, 32, 33, 62, 63, 64]
    vals = {0, 1, -1, 7, 8, 9, 10, 15, 16, 255, 256, LO, LO + 1, HI, HI - 1}
    for k in ks:
        for dlt in (-1, 0, 1):
            for sg in (1, -1):
                vals.add(sg * ((1 << k) + dlt))
    return sorted(v for v in vals if LO <= v <= HI)


def lit(v, radix):
    pre, f = {"dec": ("", "d"), "hex": ("0x", "x"), "oct": ("0o", "o"), "bin": ("0b", "b")}[radix]
    return ("-" if v < 0 else "") + pre + format(abs(v), f)


def header_value(name):
    if name in g.DW:
        return g.DW[name]
    if name in g.ELF:
        return g.ELF[name]
    return None


def const_words(d):
    out = []
    for l in d.cmd("dumpvoc").lines:
        if l.startswith("w "):
            _, nm, kind, _ = l.split(" ")
            if kind == "const":
                out.append(drv.unhx(nm).decode())
    return sorted(out)


def _const_worker(d, chunk, extra):
    out = {"n": 0, "bad": [], "unknown_to_headers": 0}
    cmds = []
    for w in chunk:
        cmds += [drv.run_cmd(w + " value", lim=3), drv.run_cmd(w + ' "%s"', lim=3), drv.run_cmd(w, lim=3)]
    rs = d.batch(cmds)
    follow = []
    for i, w in enumerate(chunk):
        rv, rtxt, rself = rs[3 * i:3 * i + 3]
        out["n"] += 1

        def viol(kind, what):
            out["bad"].append(("const:%s|%s" % (w, kind), "constant `%s`: %s" % (w, what), {"part": "const", "w": w}))
        if rv.crash or rtxt.crash or len(rv.results()) != 1 or len(rtxt.results()) != 1:
            viol("eval", "does not evaluate to one value: %r %r" % (rv.lines[:2], rtxt.lines[:2]))
            continue
        num = int(rv.results()[0].split(":")[2].split("@")[0])
        hv = header_value(w)
        if hv is None:
            if w.startswith(("DW_", "ST", "EM_")):
                out["unknown_to_headers"] += 1
        elif num != hv:
            viol("value", "`%s value` is %d, the system header defines %d" % (w, num, hv))
        txt = drv.unhx(rtxt.results()[0].split(":")[1].split("@")[0])
        follow.append((w, txt, rself.results()[0].split(" ")[-1]))
    # the rendering, read back as a word, denotes an equal constant
    cmds2 = []
    for w, txt, canon in follow:
        cmds2 += [drv.run_cmd(txt, lim=3), drv.run_cmd("%s %s ?eq" % (w, txt.decode("latin-1")), lim=3)]
    rs2 = d.batch(cmds2)
    for i, (w, txt, canon) in enumerate(follow):
        rb, req = rs2[2 * i:2 * i + 2]
        if rb.crash or len(rb.results()) != 1:
            out["bad"].append(("const:%s|readback" % w, "constant `%s` renders as `%s`, which is not a word that evaluates to a value: %r" % (w, txt.decode("latin-1"), rb.lines[:2]),
                               {"part": "const", "w": w}))
            continue
        if rb.results()[0].split(" ")[-1] != canon or len(req.results()) != 1:
            out["bad"].append(("const:%s|roundtrip" % w, "constant `%s` renders as `%s`, which evaluates to %s, not to %s (or is not == to it)" % (
                w, txt.decode("latin-1"), rb.results()[0], canon), {"part": "const", "w": w}))
        hv, tv = header_value(w), header_value(txt.decode("latin-1"))
        if txt.decode("latin-1") != w and not (hv is not None and hv == tv):
            out["bad"].append(("const:%s|name" % w, "constant `%s` renders as `%s`, which the headers do not define as the same number" % (w, txt.decode("latin-1")),
                               {"part": "const", "w": w}))
    return out


def int_cases(tier):
    for v in int_lattice(tier):
        for r in ("dec", "hex", "oct", "bin"):
            yield v, r


def _int_worker(d, chunk, extra):
    out = {"n": 0, "bad": []}
    cmds = []
    for v, r in chunk:
        L = lit(v, r)
        cmds += [drv.run_cmd(L, lim=3), drv.run_cmd(L + ' "%s"', lim=3)] + [drv.run_cmd(L + ' "%' + dch + '"', lim=3) for dch in "dxob"]
    rs = d.batch(cmds)
    follow = []
    for i, (v, r) in enumerate(chunk):
        grp = rs[6 * i:6 * i + 6]
        L = lit(v, r)
        if any(x.crash or len(x.results()) != 1 for x in grp):
            out["bad"].append(("int:%s|eval" % L, "literal `%s` or one of its renderings does not evaluate: %r" % (L, [x.lines[:1] for x in grp]), {"part": "int", "v": v, "r": r}))
            continue
        exp_self = "c:%s:%d@0" % (r, v)
        if grp[0].results()[0] != exp_self:
            out["bad"].append(("int:%s|literal" % L, "literal `%s` evaluates to %s, expected %s" % (L, grp[0].results()[0], exp_self), {"part": "int", "v": v, "r": r}))
        texts = [drv.unhx(x.results()[0].split(":")[1].split("@")[0]).decode("latin-1") for x in grp[1:]]
        for t, dom in zip(texts, (r, "dec", "hex", "oct", "bin")):
            follow.append((L, v, t, dom, r))
    rs2 = d.batch([drv.run_cmd(t, lim=3) for (_, _, t, _, _) in follow])
    # the same texts once more, each right after a literal that is rejected as out of range: reading a literal back
    # must not depend on what the parser was given before
    rs3 = d.batch([c for (_, _, t, _, _) in follow for c in (drv.run_cmd("18446744073709551616", lim=1), drv.run_cmd("-9223372036854775809", lim=1), drv.run_cmd(t, lim=3))])
    for i, ((L, v, t, dom, r), rb) in enumerate(zip(follow, rs2)):
        again = rs3[3 * i + 2]
        if not rb.crash and again.results() != rb.results():
            out["bad"].append(("int:%s|%s|%s|after-reject" % (L, dom, t), "`%s` reads back as %r, but right after a rejected out-of-range literal it reads back as %r" % (
                t, rb.results() or rb.lines[:1], again.results() or again.lines[:1]), {"part": "int", "v": v, "r": r}))
    for (L, v, t, dom, r), rb in zip(follow, rs2):
        out["n"] += 1
        exp = "c:%s:%d@0" % (dom, v)
        if rb.crash or rb.results() != [exp]:
            out["bad"].append(("int:%s|%s|%s" % (L, dom, t), "`%s` rendered %s is `%s`, which reads back as %r, expected %s" % (
                L, "by %s" % ("%s" if dom == r else "%" + dom[0]), t, rb.results() or rb.lines[:1], exp), {"part": "int", "v": v, "r": r}))
    return out


def strings(maxlen):
    for n in range(0, maxlen + 1):
        for combo in itertools.product(ALPHABET, repeat=n):
            yield b"".join(combo)


def qlit(b):
    return '"' + "".join("\\x%02x" % c for c in b) + '"'


def cli_lines(cli, query, stdin=None):
    env = dict(os.environ, ASAN_OPTIONS="detect_leaks=0", LC_ALL="C")
    p = subprocess.run([cli, "-f", "-"], input=query.encode("latin-1"), stdout=subprocess.PIPE, stderr=subprocess.PIPE, env=env, timeout=120)
    return p.returncode, p.stdout, p.stderr


def _string_worker(task):
    cli, zwdrv, chunk = task
    out = {"n": 0, "bad": []}
    d = drv.Drv(zwdrv, "core")
    # strings nested in sequences: the brief renderer.  One result per string, each printed on its own line(s).
    # Strings containing newlines print over several lines; use a separator line between results.
    query = "(" + ", ".join("[%s, 1]" % qlit(s) for s in chunk) + ")"
    rc, so, se = cli_lines(cli, query)
    if rc != 0:
        out["bad"].append(("str:cli", "dwgrep failed on %r...: rc=%s %r" % (query[:80], rc, se[:200]), {"part": "str", "chunk": [s.hex() for s in chunk]}))
        d.close()
        return out
    # every result line looks like ["...", 1]: split on the terminator `, 1]\n`
    recs = so.split(b", 1]\n")
    if recs and recs[-1] == b"":
        recs.pop()
    if len(recs) != len(chunk):
        out["bad"].append(("str:count", "printed %d records for %d strings" % (len(recs), len(chunk)), {"part": "str", "chunk": [s.hex() for s in chunk]}))
        d.close()
        return out
    seen = {}
    cmds = []
    for s, rec in zip(chunk, recs):
        printed = rec[1:] if rec.startswith(b"[") else rec
        cmds.append(drv.run_cmd(printed, lim=3))
    rs = d.batch(cmds)
    for s, rec, r in zip(chunk, recs, rs):
        out["n"] += 1
        printed = rec[1:]
        if printed in seen and seen[printed] != s:
            out["bad"].append(("str:%s|collision" % s.hex(), "strings %r and %r both print as %r" % (seen[printed], s, printed), {"part": "str", "chunk": [s.hex(), seen[printed].hex()]}))
        seen[printed] = s
        want = ["s:x%s@0" % s.hex()]
        if r.crash or r.results() != want:
            out["bad"].append(("str:%s|readback" % s.hex(), "string %r is printed as %r, which reads back as %r" % (s, printed, r.results() or r.lines[:1]), {"part": "str", "chunk": [s.hex()]}))
    d.close()
    out["bad"] = out["bad"][:10]
    return out


DOM_SOURCES = ["entry offset", "entry ?AT_decl_line @AT_decl_line", "entry ?AT_byte_size @AT_byte_size", "entry label", "entry attribute label", "entry attribute form",
               "symbol address", "symbol size", "symbol label", "entry ?(@AT_location) @AT_location elem offset", "entry (pos == 0) address low", "unit offset",
               "entry abbrev code", "DW_TAG_variable", "DW_AT_name", "T_STR", "true", "false", "[1, 2] elem pos", "0x10", "010", "0b11", "17"]


def _domfmt_worker(d, chunk, extra):
    """%d %x %o %b of a constant of ANY domain (offsets, addresses, line numbers, named constants, booleans, positions)
    render its number in that radix: the text reads back as the literal of that radix with the same value."""
    out = {"n": 0, "bad": []}
    for f in extra["files"]:
        rs = d.batch(["open id=d1 path=" + drv.hx(f)] + [c for v in chunk for c in
                     [drv.run_cmd(v, i="d1", lim=40)] + [drv.run_cmd('%s "%%%s"' % (v, dch), i="d1", lim=40) for dch in "dxob"]] + ["close id=d1"])[1:-1]
        for k, v in enumerate(chunk):
            base = rs[5 * k]
            if base.crash or any(r.crash for r in rs[5 * k:5 * k + 5]):
                out["bad"].append(("domfmt:%s|crash" % v, "`%s` or a directive on it died on %s" % (v, f), {"part": "domfmt", "v": v, "file": f}))
                d.batch(["open id=d1 path=" + drv.hx(f)])
                break
            nums = []
            for x in base.results():
                m = x.split(" ")[-1].rsplit("@", 1)[0]
                nums.append(int(m.split(":")[2]) if m.startswith("c:") else None)
            for dch, dom, r in zip("dxob", ("dec", "hex", "oct", "bin"), rs[5 * k + 1:5 * k + 5]):
                texts = [drv.unhx(x.split(" ")[-1].split(":")[1].split("@")[0]).decode("latin-1") if x.split(" ")[-1].startswith("s:x") else None for x in r.results()]
                if len(texts) != len(nums):
                    out["bad"].append(("domfmt:%s|%s|count" % (v, dch), "`%s \"%%%s\"` yields %d strings for %d values" % (v, dch, len(texts), len(nums)), {"part": "domfmt", "v": v, "file": f}))
                    continue
                want = {"d": lambda n: str(n), "x": lambda n: ("-" if n < 0 else "") + hex(abs(n)), "o": lambda n: ("-" if n < 0 else "") + "0" + oct(abs(n))[2:],
                        "b": lambda n: ("-" if n < 0 else "") + "0b" + bin(abs(n))[2:]}[dch]
                for n, t in zip(nums, texts):
                    if n is None:
                        continue
                    out["n"] += 1
                    if t != want(n):
                        out["bad"].append(("domfmt:%s|%s" % (v, dch), "on %s a value of `%s` is the number %d; `%%%s` renders it as `%s`, the %s literal of that number is `%s`" % (
                            f, v, n, dch, t, dom, want(n)), {"part": "domfmt", "v": v, "file": f}))
                        break
    out["bad"] = out["bad"][:10]
    return out


def seq_items():
    it = [lit(v, r) for v in (0, 1, 8, -7, 255) for r in ("dec", "hex", "oct", "bin")]
    return it + ["true", '"s"', "[]", "[010]", "DW_TAG_array_type", "T_STR"]


def seq_cases(tier):
    it = seq_items()
    for a, b in itertools.product(it, repeat=2):
        yield (a, b)
    small = it[4:12] + it[20:23]
    for t in itertools.product(small if tier != "thorough" else it, repeat=3):
        yield t


def _seq_worker(d, chunk, extra):
    """Values inside a sequence keep their own notation: `[a, b, ..] "%s"` reads back as the same sequence (one stream
    renders all elements, so formatting state must not leak from one element to the next)."""
    out = {"n": 0, "bad": []}
    cmds = []
    for t in chunk:
        q = "[" + ", ".join(t) + "]"
        cmds += [drv.run_cmd(q, lim=3), drv.run_cmd(q + ' "%s"', lim=3)]
    rs = d.batch(cmds)
    follow = []
    for i, t in enumerate(chunk):
        a, b = rs[2 * i], rs[2 * i + 1]
        q = "[" + ", ".join(t) + "]"
        if any(x.startswith('"') for x in t):
            continue        # quoting of strings is promised for the CLI's nested rendering only (cli_seq_check)
        if a.crash or b.crash or len(a.results()) != 1 or len(b.results()) != 1:
            out["bad"].append(("seq:%s|eval" % q, "`%s` or its rendering does not evaluate: %r %r" % (q, a.lines[:1], b.lines[:1]), {"part": "seq", "t": list(t)}))
            continue
        follow.append((t, q, a.results()[0], drv.unhx(b.results()[0].split(":")[1].split("@")[0]).decode("latin-1")))
    rs2 = d.batch([drv.run_cmd(txt, lim=3) for (_, _, _, txt) in follow])
    for (t, q, canon, txt), rb in zip(follow, rs2):
        out["n"] += 1
        if rb.crash or rb.results() != [canon]:
            out["bad"].append(("seq:%s" % q, "`%s` rendered by %%s is `%s`, which reads back as %r, expected %s" % (q, txt, rb.results() or rb.lines[:1], canon), {"part": "seq", "t": list(t)}))
    out["bad"] = out["bad"][:10]
    return out


def cli_int_check(cli, d, tier):
    """Full rendering of integers by the CLI reads back."""
    vals = [(v, r) for v, r in int_cases(tier)]
    bad, n = [], 0
    for i in range(0, len(vals), 300):
        part = vals[i:i + 300]
        rc, so, se = cli_lines(cli, "(" + ", ".join(lit(v, r) for v, r in part) + ")")
        lines = so.decode().splitlines()
        if rc != 0 or len(lines) != len(part):
            bad.append(("int:cli", "dwgrep printed %d lines for %d integers (rc=%s %r)" % (len(lines), len(part), rc, se[:200]), {"part": "intcli"}))
            continue
        rs = d.batch([drv.run_cmd(t, lim=3) for t in lines])
        for (v, r), t, rb in zip(part, lines, rs):
            n += 1
            if rb.results() != ["c:%s:%d@0" % (r, v)]:
                bad.append(("int:cli:%s" % lit(v, r), "the CLI prints `%s` as `%s`, which reads back as %r" % (lit(v, r), t, rb.results() or rb.lines[:1]), {"part": "intcli"}))
    return n, bad


def replay(case):
    ctx = common.Ctx("C20", "quick")
    bins = ctx.build(["zwdrv", "dwgrep"])
    if case["part"] == "str":
        r = _string_worker((bins["dwgrep"], bins["zwdrv"], [bytes.fromhex(x) for x in case["chunk"]]))
        return bool(r["bad"])
    d = drv.Drv(bins["zwdrv"], "full")
    try:
        if case["part"] == "const":
            return bool(_const_worker(d, [case["w"]], None)["bad"])
        if case["part"] == "int":
            return bool(_int_worker(d, [(case["v"], case["r"])], None)["bad"])
        if case["part"] == "domfmt":
            return bool(_domfmt_worker(d, [case["v"]], {"files": [case["file"]]})["bad"])
        if case["part"] == "seq":
            return bool(_seq_worker(d, [tuple(case["t"])], None)["bad"])
        return bool(cli_int_check(bins["dwgrep"], d, "quick")[1])
    finally:
        d.close()


def main(ctx):
    import multiprocessing
    bins = ctx.build(["zwdrv", "dwgrep"])
    thorough = ctx.tier == "thorough"
    d = drv.Drv(bins["zwdrv"], "full")
    words = const_words(d)
    d.close()
    for r in common.pmap(ctx, _const_worker, common.chunks(words, 40), bins["zwdrv"], "full", timeout=120):
        ctx.count("named_constants", r["n"])
        ctx.count("constants_without_header_definition", r["unknown_to_headers"])
        for key, what, case in r["bad"]:
            ctx.violation(key, what, case)
    for r in common.pmap(ctx, _int_worker, common.chunks(int_cases(ctx.tier), 100), bins["zwdrv"], "core", timeout=120):
        ctx.count("integer_renderings", r["n"])
        for key, what, case in r["bad"]:
            ctx.violation(key, what, case)
    for r in common.pmap(ctx, _seq_worker, common.chunks(seq_cases(ctx.tier), 100), bins["zwdrv"], "full", timeout=120):
        ctx.count("sequence_renderings", r["n"])
        for key, what, case in r["bad"]:
            ctx.violation(key, what, case)
    dfiles = [f for f in ["/repo/tests/typedef.o", "/repo/tests/bitcount.o"] + (["/repo/tests/nontrivial-types.o"] if thorough else []) if os.path.exists(f)]
    for r in common.pmap(ctx, _domfmt_worker, common.chunks(DOM_SOURCES, 3), bins["zwdrv"], "full", extra={"files": dfiles}, timeout=120):
        ctx.count("directive_renderings_of_domain_constants", r["n"])
        for key, what, case in r["bad"]:
            ctx.violation(key, what, case)
    d = drv.Drv(bins["zwdrv"], "core")
    n, bad = cli_int_check(bins["dwgrep"], d, ctx.tier)
    d.close()
    ctx.count("integer_cli_renderings", n)
    for key, what, case in bad:
        ctx.violation(key, what, case)
    maxlen = 3 if thorough else 2
    allstr = list(strings(maxlen))
    pool = multiprocessing.Pool(16)
    try:
        for r in pool.imap_unordered(_string_worker, [(bins["dwgrep"], bins["zwdrv"], c) for c in common.chunks(allstr, 120)]):
            ctx.count("strings", r["n"])
            for key, what, case in r["bad"]:
                ctx.violation(key, what, case)
    finally:
        pool.terminate()
        pool.join()
    ctx.sample({"string": 'a"b', "cli_brief": '"a\\"b"', "readback": "same bytes"})
    ctx.sample({"constant": "DW_TAG_array_type", "value": 1, "renders": "DW_TAG_array_type"})
    n = ctx.counts.get("named_constants", 0) + ctx.counts.get("integer_renderings", 0) + ctx.counts.get("integer_cli_renderings", 0) + ctx.counts.get("strings", 0)
    cov = {
        "states": n, "transitions": n, "traces_validated_against_impl": n, "evaluations": n, "distinct_nontrivial": n,
        "rule": "state = one value (named constant, integer in a radix domain, byte string) rendered by the engine / the CLI and read back by the engine; distinct = distinct value x rendering",
        "bounds": {"named_constants": "all %d constant words of the vocabulary" % len(words), "integer_lattice": len(int_lattice(ctx.tier)), "radices": 4,
                   "string_alphabet": [a.hex() for a in ALPHABET], "string_max_length": maxlen},
    }
    return ctx.finish("model_checking", cov, [
        "/usr/include/dwarf.h and elf.h are parsed by lib/elfgen.py's own header parser, independently of known-dwarf.awk / known-elf.awk",
        "only the full rendering of integers and the brief (quoted) rendering of strings are required to read back, as the property states",
    ], replay)
