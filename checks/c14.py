"""C14 - any byte string is either compiled or rejected with an error through the API.

Enumerated query texts (all passed with explicit length from a heap buffer of
exactly that size, so reads outside the length hit ASan red zones):
  (a) all token strings up to a length bound over an alphabet covering every
      lexer rule and start condition, joined with and without blanks;
  (b) all byte strings of length <= 2 over all 256 bytes, length <= 3 over 40 bytes;
  (c) integer literals: prefix x sign x digit-string classes;
  (d) unterminated strings / splices at nesting <= 3, NUL bytes;
Oracle: zw_query_parse_len returns a query XOR (NULL, error object, non-empty
message); no crash, abort, hang or exception through the C boundary.  Every
accepted query is executed on the empty stack and on [1]: each pull returns
true, or false with an error set; destruction is safe.  Run-time failures at
every pull index surface through zw_result_next; in the CLI they give a
message on stderr and exit status 2.
"""
import itertools, os, subprocess
import common, drv

ALL_TOKENS = ["(", ")", "?(", "!(", "[", "`[", "]", "{", "}", "?{", "!{", "*", "+", "?", ",", "||", "|", ":", ";", ":=",
              "if", "then", "else", "let", "A", "?0", "1", "-1", "0x", '"x"', '"', '"%s"', '"%(', "%)", 'r"', '"\\', "==", "=~",
              "\\dbg", "//", "/*", "*/", "#"]
CORE_TOKENS = ["(", ")", "?(", "[", "`[", "]", "{", "}", "*", "+", "?", ",", "||", "|", ";", ":=", "if", "then", "else", "let", "A", "1",
               '"', '"%(', "%)", "=="]
BYTES40 = [0, 1, 9, 10, 13, 32, 33, 34, 35, 37, 40, 41, 42, 43, 44, 45, 47, 48, 49, 55, 56, 58, 59, 61, 63, 64, 65, 91, 92, 93, 96,
           114, 120, 123, 124, 125, 126, 127, 128, 255]


def int_literals():
    out = []
    digs = ["", "0", "7", "8", "9", "f", "g", "1_", "_1", "9223372036854775807", "9223372036854775808", "18446744073709551615",
            "18446744073709551616", "ffffffffffffffff", "10000000000000000", "1777777777777777777777", "2000000000000000000000",
            "1" * 64, "1" * 65, "123456789012345678901234567890", "7fffffffffffffff", "8000000000000000"]
    for sign in ("", "-", "--", "+"):
        for pre in ("", "0", "0x", "0X", "0o", "0O", "0b", "0B", "00", "0x0x"):
            for d in digs:
                out.append(sign + pre + d)
    for w in ("?", "!"):
        for d in ("0", "1", "18446744073709551615", "18446744073709551616", "0x10", "08", "1a", "-1"):
            out.append("1 " + w + d)
    return out


def unterminated():
    out = []
    opens = ['"', 'r"', '"%(', '"%( "', '"%( "%(', '"%( "%( "', '"%( "%( "%(', '"a%( 1 %)b%(', '"\\', '"a"\\', '"a"\\ ', '"a"\\ r', "/*", "/* *", "(", "?(", "[", "{",
             "let A :=", "let", "if", "if 1 then", "if 1 then 2 else", '"%( ) %)"', '"%( ( %)"', '"%( [ %)"', '"%( "%)" %)"', '"%( %) %)"', '"%', '"%q"', '"%%"', '"%("', '"\\x"', '"\\xg0"', '"\\8"', '"\\400"', '"\\377"', '"\\0"',
             "\\", "\\dbg", "\\d", "@", ".", "..", "@A", ".A", "\\A", "?A", "!A", "?", "!", "`", "``", "```[1]", "`(", "$", "&", "^", "~", "<", ">", "<=", "!=", "!~", "a:b", "A:", ":A", "A:1", "1:A", "(|", "(|A", "(|A|", "(||)", "(|1|)", '(|"a"|)', "let 1 := 2;", 'let "A" := 1; A', 'let "A%s" := 1;', 'let "" := 1;', "let A B", "let := 1;"]
    for o in opens:
        out.append(o)
        out.append(o + " 1")
        out.append("1 " + o)
        out.append(o + "\x00")
        out.append(o + "\n")
    for t in ["1\x002", "\x00", "1 \x00 2", '"a\x00b"', "A\x00", '"%( 1 \x00 %)"', "// c\x00\n1", "/* \x00 */ 1"]:
        out.append(t)
    return out


def pull_index_programs():
    out = []
    for n in range(1, 6):
        for k in range(n):
            items = ["%d" % (i + 1) for i in range(n)]
            items[k] = "drop"
            out.append(("(" + ", ".join(items) + ")", k))
            items[k] = "swap"
            out.append(("(" + ", ".join(items) + ")", k))
    return out


def classify(r):
    """(kind, detail) for a parselen response."""
    if r.crash:
        partial = "".join(r.lines)
        if "ok" in r.lines and ("rc=124" in r.crash[0] or "hard rss limit" in r.crash[1] or "timeout" in r.crash[0]):
            return "diverges", ""
        return "crash", "%s %s" % (r.crash[0], r.crash[1][-700:])
    if r.contract():
        return "contract", " ".join(r.contract())
    if r.lines and r.lines[0].startswith("qerr "):
        return "rejected", drv.unhx(r.lines[0][5:]).decode("latin-1")
    if r.lines and r.lines[0] == "ok":
        return "accepted", ""
    return "odd", repr(r.lines[:3])


def msg_class(m):
    import re
    m = re.sub(r"`.*'", "`..'", m, flags=re.S)
    m = re.sub(r"unexpected \S+", "unexpected T", m)
    m = re.sub(r"expecting .*", "expecting ..", m)
    return m[:48]


def _worker(d, task, extra):
    texts = list(gen_texts(task))
    out = {"n": 0, "bad": [], "kinds": {}, "msgs": {}, "exec": 0}
    cmds = ["parselen q=%s exec lim=6" % drv.hx(t) for t in texts]
    # pipeline in slices
    pos = 0
    step = 200
    d.send(cmds[:step])
    sent = min(step, len(cmds))
    while pos < len(cmds):
        n = min(step, len(cmds) - pos)
        nxt = cmds[sent:sent + step]
        rs_needed = n
        if nxt:
            d.send(nxt)
            sent += len(nxt)
        rs = d.recv(rs_needed)
        for t, r in zip(texts[pos:pos + n], rs):
            kind, detail = classify(r)
            out["n"] += 1
            out["kinds"][kind] = out["kinds"].get(kind, 0) + 1
            if kind == "rejected":
                mc = msg_class(detail)
                out["msgs"][mc] = out["msgs"].get(mc, 0) + 1
            if kind == "accepted":
                out["exec"] += 2
            if kind in ("crash", "contract", "odd"):
                if len(out["bad"]) < 8:
                    tb = t
                    out["bad"].append(("text:" + tb.hex(), "query text %r: %s: %s" % (tb, kind, detail), {"hex": tb.hex()}))
        pos += n
    return out


def gen_texts(task):
    kind = task[0]
    if kind == "tok":
        _, alpha, length, first, joiner = task
        toks = ALL_TOKENS if alpha == "all" else CORE_TOKENS
        rest = itertools.product(toks, repeat=length - 1) if length > 1 else [()]
        for tail in rest:
            yield joiner.join((toks[first],) + tuple(tail)).encode("latin-1")
    elif kind == "bytes2":
        b0 = task[1]
        yield bytes([b0])
        for b1 in range(256):
            yield bytes([b0, b1])
    elif kind == "bytes3":
        b0 = task[1]
        for b1 in BYTES40:
            for b2 in BYTES40:
                yield bytes([b0, b1, b2])
    elif kind == "list":
        for t in task[1]:
            yield t.encode("latin-1")


def cli_runtime_errors(cli):
    """Run-time failure after k results: message on stderr, exit status 2, results before it printed."""
    bad, n = [], 0
    env = dict(os.environ, ASAN_OPTIONS="detect_leaks=0")
    for q, k in pull_index_programs()[:12]:
        p = subprocess.run([cli, "-e", q], stdout=subprocess.PIPE, stderr=subprocess.PIPE, env=env, timeout=60)
        n += 1
        if p.returncode != 2 or not p.stderr.strip():
            bad.append(("cli:" + q, "`dwgrep -e '%s'` fails at run time: expected exit status 2 and a message on stderr, got status %d, stderr %r, stdout %r" % (
                q, p.returncode, p.stderr[:200], p.stdout[:200]), {"cli": q}))
    for q in ["(", '"', "1 )", "0x", "let A := 1; let A := 2;", "A", "\x01"]:
        p = subprocess.run([cli, "-e", q], stdout=subprocess.PIPE, stderr=subprocess.PIPE, env=env, timeout=60)
        n += 1
        if p.returncode != 2 or not p.stderr.strip() or p.stdout:
            bad.append(("cli:" + q, "`dwgrep -e %r` does not compile: expected exit status 2, a message on stderr and empty stdout, got status %d, stderr %r, stdout %r" % (
                q, p.returncode, p.stderr[:200], p.stdout[:200]), {"cli": q}))
    return n, bad


def pull_index_check(d):
    bad, n = [], 0
    for q, k in pull_index_programs():
        r = d.run(q, lim=20)
        n += 1
        res = r.results()
        if r.crash or r.contract() or r.first("e") is None or len(res) != k:
            bad.append(("pull:" + q, "`%s` must yield %d results and then fail through zw_result_next; got %r crash=%r" % (q, k, r.lines, r.crash and r.crash[0]), {"pull": q, "k": k}))
    # other fallible API calls
    for path in ("/nonexistent/file", "/etc/passwd", "/"):
        r = d.cmd("open id=d9 path=" + drv.hx(path))
        n += 1
        if r.crash or r.contract() or not (r.lines and r.lines[0].startswith("err ") and len(r.lines[0]) > 5):
            bad.append(("open:" + path, "zw_value_init_dwarf(%s) must fail with a message; got %r" % (path, r.lines), {"open": path}))
    return n, bad


def replay(case):
    ctx = common.Ctx("C14", "quick")
    if "cli" in case:
        _, bad = cli_runtime_errors(ctx.bin("dwgrep"))
        return any(b[2].get("cli") == case["cli"] for b in bad)
    d = drv.Drv(ctx.bin("zwdrv"), "core", cmd_timeout=4)
    try:
        if "pull" in case or "open" in case:
            _, bad = pull_index_check(d)
            return any(b[2] == case for b in bad)
        t = bytes.fromhex(case["hex"])
        kind, _ = classify(d.cmd("parselen q=%s exec lim=6" % drv.hx(t)))
        return kind in ("crash", "contract", "odd")
    finally:
        d.close()


def main(ctx):
    bins = ctx.build(["zwdrv", "dwgrep"])
    thorough = ctx.tier == "thorough"
    tasks = []
    nall, ncore = len(ALL_TOKENS), len(CORE_TOKENS)
    for joiner in (" ", ""):
        for length in (1, 2, 3):
            tasks += [("tok", "all", length, f, joiner) for f in range(nall)]
        tasks += [("tok", "core", 4, f, joiner) for f in range(ncore)]
    tasks += [("bytes2", b) for b in range(256)]
    tasks += [("bytes3", b) for b in BYTES40]
    lits = int_literals() + unterminated()
    tasks += [("list", lits[i:i + 200]) for i in range(0, len(lits), 200)]
    parts = [(bins["zwdrv"], tasks)]
    if thorough:
        fast = ctx.build(["zwdrv"], "fast")["zwdrv"]
        t2 = []
        for joiner in (" ", ""):
            t2 += [("tok", "all", 4, f, joiner) for f in range(nall)]
            t2 += [("tok", "core", 5, f, joiner) for f in range(ncore)]
        parts.append((fast, t2))
    kinds, msgs = {}, {}
    for binary, tl in parts:
        for r in common.pmap(ctx, _worker, tl, binary, "core", timeout=30, cmd_timeout=2):
            ctx.count("texts", r["n"])
            ctx.count("executions_of_accepted", r["exec"])
            for k, v in r["kinds"].items():
                kinds[k] = kinds.get(k, 0) + v
            for k, v in r["msgs"].items():
                msgs[k] = msgs.get(k, 0) + v
            for key, what, case in r["bad"]:
                ctx.violation(key, what, case)
    d = drv.Drv(bins["zwdrv"], "core")
    n, bad = pull_index_check(d)
    d.close()
    ctx.count("runtime_failure_cases", n)
    for key, what, case in bad:
        ctx.violation(key, what, case)
    n, bad = cli_runtime_errors(bins["dwgrep"])
    ctx.count("cli_cases", n)
    for key, what, case in bad:
        ctx.violation(key, what, case)
    ctx.sample({"text": '"%( [ %)"', "expect": "NULL + error message"})
    ctx.sample({"text": "`[ let A := ; ]", "expect": "query or error, then safe execution on [] and [1]"})
    n = ctx.counts.get("texts", 0)
    cov = {
        "states": n,
        "transitions": n + ctx.counts.get("executions_of_accepted", 0),
        "traces_validated_against_impl": n,
        "evaluations": n,
        "distinct_nontrivial": n,
        "distinct_outcomes": {"kinds": kinds, "rejection_message_classes": len(msgs), "top_messages": dict(sorted(msgs.items(), key=lambda kv: -kv[1])[:12])},
        "rule": "state = one query text given with explicit length from an exact-size heap buffer; outcome = accepted (then executed on [] and [1] with every "
                "pull checked) | rejected with non-empty message | diverges when executed (unbalanced closure body: outside the property) ; anything else is a violation",
        "bounds": {"token_alphabet": ALL_TOKENS, "token_lengths_full_alphabet": 4 if thorough else 3, "core_alphabet": CORE_TOKENS,
                   "token_lengths_core_alphabet": 5 if thorough else 4, "joiners": ["blank", "none"], "bytes": "all strings <= 2 over 256 bytes, all of length 3 over 40 bytes",
                   "integer_literals": len(int_literals()), "unterminated_and_nul": len(unterminated())},
    }
    return ctx.finish("model_checking", cov, [
        "the contract is checked by the driver at the C API boundary (CONTRACT lines) under ASan/UBSan with asserts enabled",
        "accepted queries that diverge when executed (e.g. `[1*]`) are cut by a watchdog / memory cap and counted, not judged",
        "grammar-derived mutation beyond the token-string bound is not explored",
    ], replay)
