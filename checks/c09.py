"""C09 - comparison is one consistent total order; equality respects constant domains.

A pool of values of every documented type is built by evaluating snippets
(integers in every arithmetic domain, booleans, slot-type and DW_*/ELF named
constants with equal and different numbers, strings, nested sequences, address
sets, and DWARF values taken from sample files: DIEs raw / cooked / through
import routes, attributes, units, abbreviations, location list elements and
operations, symbols).  For ALL ordered pairs the twelve comparison words and
the six infix forms are evaluated on the engine, giving a complete outcome
matrix; trichotomy, alias agreement, reflexivity, symmetry, antisymmetry, the
element-wise law for sequences and - over ALL triples - transitivity of `<`
and `==` are decided on the matrix.  Where the documentation fixes the order
(integers by value, strings bytewise, sequences by length then element-wise,
unrelated named domains never equal) the matrix is compared with it.
"""
import itertools, os
import common, drv

WORDS = ["?lt", "!lt", "?gt", "!gt", "?eq", "!eq", "?ne", "!ne", "?ge", "!ge", "?le", "!le"]
INFIX = ["<", ">", "==", "!=", ">=", "<="]
F1, F2, F3 = "/repo/tests/typedef.o", "/repo/tests/dwz-partial", "/repo/tests/bitcount.o"
F4, F5, F6 = "/repo/tests/y-mips.o", "/repo/tests/float_const_value.o-armv7hl", "/repo/tests/float_const_value.o-ppc64"


DIE_WILDCARD_KEY = "eq-transitivity:die-import-path-wildcard"


def core_pool(tier):
    p = []
    for v in (0, 1, 3, -1):
        p.append(("%d" % v, ("int", v, "arith")))
        if v >= 0:
            p.append(("0x%x" % v, ("int", v, "arith")))
            p.append(("0o%o" % v, ("int", v, "arith")))
            p.append(("0b%s" % bin(v)[2:], ("int", v, "arith")))
    p += [("-0x1", ("int", -1, "arith")), ("18446744073709551615", ("int", (1 << 64) - 1, "arith")), ("-9223372036854775808", ("int", -(1 << 63), "arith")),
          ("[5] elem pos", ("int", 0, "arith")), ("[5, 6] elem (pos == 1) pos", ("int", 1, "arith"))]
    p += [("true", ("int", 1, "bool")), ("false", ("int", 0, "bool")), ("T_CONST", None), ("T_STR", None), ("T_SEQ", None)]
    strs = [b"", b"a", b"ab", b"a\x00", b"a\x00b", b"a\x00c", b"\xff", b"b", b"\x7f", b"\x80"]
    # every byte string of up to 2 bytes over {00, 'a', 'b', ff}: strings that agree up to an embedded NUL and differ after it
    strs += [bytes(t) for n in (1, 2) for t in itertools.product((0, 0x61, 0x62, 0xff), repeat=n) if bytes(t) not in strs]
    for s in strs:
        p.append(('"' + "".join("\\x%02x" % c for c in s) + '"', ("str", s)))
    seqs = [("[]", []), ("[1]", [1]), ("[2]", [2]), ("[1, 2]", [1, 2]), ("[1, 1]", [1, 1]), ("[[1]]", [[1]]), ("[[]]", [[]]), ("[0x1]", [1]), ("[2, 1]", [2, 1])]
    for t, v in seqs:
        p.append((t, ("seq", v)))
    p += [('["a"]', None), ('[1, "a"]', None), ('["a", 1]', None), ("[true]", None), ("[[1], 1]", None), ("[DW_TAG_array_type]", None), ("[DW_AT_sibling]", None)]
    named = ["DW_TAG_array_type", "DW_AT_sibling", "DW_FORM_addr", "DW_LANG_C89", "DW_ATE_address", "DW_ACCESS_public", "DW_VIS_local",
             "DW_VIRTUALITY_virtual", "DW_TAG_class_type", "DW_AT_location", "DW_OP_addr", "DW_OP_deref", "DW_INL_inlined", "DW_ID_up_case",
             "DW_CC_normal", "DW_ORD_col_major", "DW_DSC_range", "DW_DS_unsigned", "DW_END_big", "DW_ADDR_none", "DW_DEFAULTED_in_class",
             "STT_FUNC", "STT_OBJECT", "STB_GLOBAL", "STB_LOCAL", "STV_DEFAULT", "STV_HIDDEN", "DW_MACINFO_define", "DW_MACRO_define",
             "STT_NOTYPE", "STT_SECTION", "STT_FILE", "STT_GNU_IFUNC", "STT_ARM_TFUNC", "STT_SPARC_REGISTER", "STT_HP_OPAQUE", "STT_ARM_16BIT",
             "STB_WEAK", "STB_GNU_UNIQUE", "STB_MIPS_SPLIT_COMMON", "STT_GNU_IFUNC value", "STT_ARM_TFUNC 11 sub", "STT_ARM_TFUNC 3 sub", "STB_MIPS_SPLIT_COMMON 12 sub"]
    for n in named:
        p.append((n, None))
    p += [("DW_TAG_array_type value", ("int", 1, "arith")), ("DW_AT_sibling hex", ("int", 1, "arith"))]
    p += [("0 0 aset", None), ("1 0 aset", None)]
    # every address set over a universe of four addresses, written as its runs (nested, overlapping, disjoint, shared-start
    # and shared-end pairs of ranges all occur)
    for bits in range(1, 16):
        runs, a = [], 0
        while a < 4:
            if bits >> a & 1:
                b = a
                while b < 4 and bits >> b & 1:
                    b += 1
                runs.append((a, b))
                a = b
            else:
                a += 1
        p.append((" ".join("%d %d aset" % r for r in runs) + " add" * (len(runs) - 1), None))
    if tier == "thorough":
        have = {t for t, _ in p}

        def add(t, k):
            if t not in have:
                have.add(t)
                p.append((t, k))
        # integer lattice in every radix
        for v in (2, 7, 8, 255, 256, (1 << 31) - 1, 1 << 31, (1 << 32), (1 << 63) - 1, 1 << 63, (1 << 64) - 2):
            add("%d" % v, ("int", v, "arith"))
            add("0x%x" % v, ("int", v, "arith"))
            if v < 1 << 33:
                add("0o%o" % v, ("int", v, "arith"))
                add("0b%s" % bin(v)[2:], ("int", v, "arith"))
        for v in (-2, -255, -(1 << 31), -(1 << 63) + 1):
            add("%d" % v, ("int", v, "arith"))
            add("-0x%x" % -v, ("int", v, "arith"))
        # every byte string of up to 2 bytes over {00, 'a', 'b', ff}
        for n in (1, 2):
            for bs in itertools.product((0, 0x61, 0x62, 0xff), repeat=n):
                add('"' + "".join("\\x%02x" % c for c in bs) + '"', ("str", bytes(bs)))
        add('"abc"', ("str", b"abc"))
        add('"ab\\x00"', ("str", b"ab\x00"))
        # every sequence of up to 2 elements over a small homogeneous and a heterogeneous alphabet
        for n in (1, 2):
            for xs in itertools.product((0, 1, 2, 3), repeat=n):
                add("[" + ", ".join(map(str, xs)) + "]", ("seq", list(xs)))
            for xs in itertools.product(("1", '"a"', "[]", "[1]", "true"), repeat=n):
                add("[" + ", ".join(xs) + "]", None)
        add("[1, 2, 3]", ("seq", [1, 2, 3]))
        add("[[1, 2]]", ("seq", [[1, 2]]))
        add("[[1], [2]]", ("seq", [[1], [2]]))
        for t in ("0 4 aset", "2 4 aset", "0 1 aset 3 4 aset add", "0xffffffffffffff00 0xffffffffffffffff aset", "0 0xffffffffffffffff aset"):
            add(t, None)
        for t in ("DW_TAG_lo_user", "DW_TAG_hi_user", "DW_AT_lo_user", "DW_AT_hi_user", "DW_OP_lo_user", "DW_OP_hi_user", "DW_LANG_lo_user", "DW_ATE_lo_user", "DW_FORM_data1",
                  "DW_FORM_udata", "DW_LANG_C", "DW_LANG_C99", "DW_ATE_signed", "DW_ATE_boolean", "DW_ACCESS_private", "DW_VIS_exported", "DW_VIRTUALITY_none",
                  "DW_INL_not_inlined", "DW_CC_program", "DW_ORD_row_major", "DW_END_little", "DW_DS_leading_overpunch", "DW_OP_lit0", "DW_OP_reg0", "DW_OP_breg0",
                  "STT_TLS", "STT_COMMON", "STV_INTERNAL", "STV_PROTECTED", "T_CLOSURE", "T_DIE", "T_ATTR", "T_ASET", "DW_TAG_array_type 1 add", "DW_AT_sibling 1 add",
                  "STT_FUNC value", "STB_GLOBAL value", "DW_LANG_C89 hex", "true value", "false value"):
            add(t, None)
    return p


def dw_pool(tier):
    p = ["D", "E", "D raw", "D entry (pos == 0)", "D entry (pos == 1)", "D entry (pos == 2)", "D raw entry (pos == 1)", "D entry (pos == 1) raw",
         "D raw entry (pos == 1) cooked", "E entry (pos == 1)", "E raw entry (pos == 1)",
         "D entry (pos == 1) attribute (pos == 0)", "D entry (pos == 1) attribute (pos == 1)", "D entry (pos == 2) attribute (pos == 0)",
         "D raw entry (pos == 1) attribute (pos == 0)", "D unit (pos == 0)", "E unit (pos == 0)", "E unit (pos == 1)", "D raw unit (pos == 0)",
         "D entry (pos == 1) abbrev", "D entry (pos == 2) abbrev", "D abbrev (pos == 0)", "D entry (pos == 1) abbrev attribute (pos == 0)",
         "D entry (pos == 1) abbrev attribute (pos == 1)", "D symbol (pos == 1)", "D symbol (pos == 2)", "E symbol (pos == 1)",
         "D symbol (pos == 1) label", "D symbol (pos == 1) binding", "D symbol (pos == 1) visibility", "D entry (pos == 1) label", "D entry (pos == 1) offset",
         "D entry (pos == 1) attribute (pos == 0) form", "D entry (pos == 1) attribute (pos == 0) label", "D entry (pos == 0) address",
         "F entry ?(@AT_location) (pos == 0) @AT_location (pos == 0)", "F entry ?(@AT_location) (pos == 0) @AT_location (pos == 1)",
         "F entry ?(@AT_location) (pos == 0) @AT_location (pos == 0) elem (pos == 0)", "F entry ?(@AT_location) (pos == 1) @AT_location (pos == 0) elem (pos == 0)",
         "F entry ?(@AT_location) (pos == 0) @AT_location (pos == 0) address",
         # the same DIEs of a partial unit reached without an import path (raw traversal, cooked afterwards) and through imports
         "E entry ?TAG_imported_unit (pos == 0) @AT_import child (pos == 0)", "E entry ?TAG_imported_unit (pos == 1) @AT_import child (pos == 0)",
         "E unit (pos == 0) root child (pos == 0)", "E unit (pos == 1) root child (pos == 0)", "E unit (pos == 0) root child (pos == 1)",
         "E raw unit (pos == 0) root child (pos == 0) cooked", "E entry ?TAG_imported_unit (pos == 0)"]
    # type / binding / visibility constants in the machine-specific families of non-x86 files
    for h in "GHI":
        for k in (1, 2, 4):
            p += ["%s symbol (pos == %d) label" % (h, k), "%s symbol (pos == %d) binding" % (h, k)]
        p += ["%s symbol (pos == 1) visibility" % h]
        p += ["%s symbol (pos == 1)" % h]
    if tier == "thorough":
        for h in "DEF":
            for k in (0, 3, 4, 5):
                p += ["%s entry (pos == %d)" % (h, k), "%s raw entry (pos == %d)" % (h, k)]
            for k in (0, 1, 2):
                p += ["%s entry (pos == 3) attribute (pos == %d)" % (h, k), "%s entry (pos == 3) attribute (pos == %d) value" % (h, k)]
            p += ["%s entry (pos == 3) abbrev" % h, "%s unit (pos == 0) root" % h, "%s entry (pos == 3) parent" % h, "%s entry (pos == 3) root" % h,
                  "%s symbol (pos == 3)" % h, "%s symbol (pos == 3) label" % h, "%s symbol (pos == 3) address" % h, "%s symbol (pos == 3) name" % h]
        seen, q = set(), []
        for x in p:
            if x not in seen:
                seen.add(x)
                q.append(x)
        p = q
    return [(x, None) for x in p]


def parse_flags(seq):
    if not (seq.startswith("[") and seq.endswith("]@0")):
        return ()
    return tuple(int(x.split(":")[2].split("@")[0]) for x in seq[1:-3].split(",") if x.startswith("c:dec:"))


def flags_query():
    items = ["(X Y %s 1 || 0)" % w for w in WORDS] + ["((X %s Y) 1 || 0)" % o for o in INFIX]
    return "(|X Y| [" + ", ".join(items) + "])"


def model_cmp(a, b):
    """Documented order of two semantic keys, or None."""
    if a is None or b is None or a[0] != b[0]:
        return None
    if a[0] == "int":
        if a[2] == b[2]:
            return (a[1] > b[1]) - (a[1] < b[1])
        return None
    if a[0] == "str":
        return (a[1] > b[1]) - (a[1] < b[1])
    if a[0] == "seq":
        def c(x, y):
            if isinstance(x, list) != isinstance(y, list):
                return None
            if not isinstance(x, list):
                return (x > y) - (x < y)
            if len(x) != len(y):
                return (len(x) > len(y)) - (len(x) < len(y))
            for u, v in zip(x, y):
                r = c(u, v)
                if r is None:
                    return None
                if r:
                    return r
            return 0
        return c(a[1], b[1])
    return None


def build_matrix(d, pool, files):
    """Returns (canon list, matrix dict (i,j)->flags tuple, problems)."""
    alts = ", ".join("(%s)" % s for s, _ in pool)
    binders = "|D E F G H I|"
    # discover canonical forms (and which snippets actually yield exactly one value)
    canon, problems = [], []
    r = d.run("(%s (%s))" % (binders, alts), i="d1,d2,d3,d4,d5,d6", lim=len(pool) + 5)
    res = r.results()
    if r.crash or len(res) != len(pool):
        # find the offending snippets one by one
        keep = []
        for s, k in pool:
            rr = d.run("(%s %s)" % (binders, s), i="d1,d2,d3,d4,d5,d6", lim=3)
            if rr.crash:
                problems.append(("crash", s, rr.crash))
            elif len(rr.results()) == 1:
                keep.append((s, k))
        pool[:] = keep
        alts = ", ".join("(%s)" % s for s, _ in pool)
        res = d.run("(%s (%s))" % (binders, alts), i="d1,d2,d3,d4,d5,d6", lim=len(pool) + 5).results()
    # N.B. no de-duplication by canonical text: constants of different domain objects that share a name
    # (machine-specific ELF families) print alike but are different values.  Groups are identified by order:
    # an ALT fed one stack yields its branches left to right.
    canon = res
    q = flags_query()
    M = {}
    cmds = [drv.run_cmd(q, p="(%s (%s) (%s))" % (binders, pool[i][0], alts), i="d1,d2,d3,d4,d5,d6", lim=3) for i in range(len(pool))]
    rs = d.batch(cmds)
    for i, r in enumerate(rs):
        if r.crash:
            problems.append(("crash-row", pool[i][0], r.crash))
            continue
        cur = None
        gi = -1
        for l in r.lines:
            if l.startswith("g "):
                gi += 1
                parts = l[2:].split(" ")
                cur = gi if (gi < len(canon) and parts[-1] == canon[gi]) else None
            elif l.startswith("r ") and cur is not None:
                seq = l[2:].split(" ")[-1]
                flags = parse_flags(seq)
                M[(i, cur)] = flags
            elif l.startswith("e "):
                problems.append(("error-row", pool[i][0], drv.unhx(l[2:])))
    return canon, M, problems


def analyse(pool, canon, M):
    """Yield (key, description) for every axiom violated on the matrix."""
    n = len(pool)
    W = {w: k for k, w in enumerate(WORDS)}
    name = lambda i: pool[i][0]

    def f(i, j, w):
        return M[(i, j)][W[w]]

    have = [(i, j) for i in range(n) for j in range(n) if (i, j) in M and len(M[(i, j)]) == len(WORDS) + len(INFIX)]
    missing = n * n - len(have)
    if missing:
        yield "matrix:incomplete", "%d of %d pairs produced no complete flag vector" % (missing, n * n)
    hs = set(have)

    def same_die(*idx):
        # all are DIE values of one file and offset (differing in view / import path only)
        ks = set()
        for x in idx:
            c = canon[x]
            if not c.startswith("D:"):
                return False
            ks.add(tuple(c.split(":")[1:3]))
        return len(ks) == 1

    for i, j in have:
        v = M[(i, j)]
        lt, gt, eq = f(i, j, "?lt"), f(i, j, "?gt"), f(i, j, "?eq")
        for pos, neg in (("?lt", "!lt"), ("?gt", "!gt"), ("?eq", "!eq"), ("?ne", "!ne"), ("?ge", "!ge"), ("?le", "!le")):
            if f(i, j, pos) + f(i, j, neg) != 1:
                yield "pair:%s|%s|compl:%s" % (name(i), name(j), pos), "`%s` and `%s` on (%s, %s) are %d/%d: exactly one must hold (an error counts as neither)" % (
                    pos, neg, name(i), name(j), f(i, j, pos), f(i, j, neg))
        if lt + gt + eq != 1:
            yield "pair:%s|%s|trichotomy" % (name(i), name(j)), "(%s, %s): ?lt=%d ?eq=%d ?gt=%d, exactly one must hold" % (name(i), name(j), lt, eq, gt)
        for a, b in (("!lt", "?ge"), ("!gt", "?le"), ("!eq", "?ne"), ("!ne", "?eq"), ("!ge", "?lt"), ("!le", "?gt")):
            if f(i, j, a) != f(i, j, b):
                yield "pair:%s|%s|alias:%s" % (name(i), name(j), a), "aliases `%s` and `%s` disagree on (%s, %s)" % (a, b, name(i), name(j))
        for k, (o, w) in enumerate(zip(INFIX, ("?lt", "?gt", "?eq", "?ne", "?ge", "?le"))):
            if v[len(WORDS) + k] != f(i, j, w):
                yield "pair:%s|%s|infix:%s" % (name(i), name(j), o), "infix `%s` and word `%s` disagree on (%s, %s)" % (o, w, name(i), name(j))
        if (j, i) in hs:
            if lt != f(j, i, "?gt"):
                yield "pair:%s|%s|converse" % (name(i), name(j)), "(%s < %s) is %d but (%s > %s) is %d" % (name(i), name(j), lt, name(j), name(i), f(j, i, "?gt"))
            if eq != f(j, i, "?eq"):
                yield "pair:%s|%s|symmetry" % (name(i), name(j)), "`==` is not symmetric on (%s, %s)" % (name(i), name(j))
        if i == j and not eq:
            yield "pair:%s|%s|copy" % (name(i), name(j)), "a value does not equal its own copy: (%s, %s) both are %s" % (name(i), name(j), canon[i])
        exp = model_cmp(pool[i][1], pool[j][1])
        if exp is not None and (lt, eq, gt) != (int(exp < 0), int(exp == 0), int(exp > 0)):
            yield "pair:%s|%s|documented" % (name(i), name(j)), "(%s, %s): documented order gives %s, engine says lt=%d eq=%d gt=%d" % (
                name(i), name(j), {-1: "<", 0: "==", 1: ">"}[exp], lt, eq, gt)
    # unrelated named domains never equal
    # transitivity over all triples
    lts = {(i, j) for i, j in have if f(i, j, "?lt")}
    eqs = {(i, j) for i, j in have if f(i, j, "?eq")}
    succ_lt = {}
    for i, j in lts:
        succ_lt.setdefault(i, set()).add(j)
    succ_eq = {}
    for i, j in eqs:
        succ_eq.setdefault(i, set()).add(j)
    cnt = 0
    for i, j in sorted(lts):
        for k in succ_lt.get(j, ()):
            if (i, k) in hs and (i, k) not in lts:
                if same_die(i, k) or same_die(i, j) or same_die(j, k):
                    yield DIE_WILDCARD_KEY, "`<` is not transitive around views of one DIE: %s < %s < %s but not %s < %s" % (name(i), name(j), name(k), name(i), name(k))
                    continue
                cnt += 1
                if cnt <= 40:
                    yield "triple:%s|%s|%s|lt" % (name(i), name(j), name(k)), "`<` is not transitive: %s < %s < %s but not %s < %s" % (name(i), name(j), name(k), name(i), name(k))
    cnt = 0
    for i, j in sorted(eqs):
        for k in succ_eq.get(j, ()):
            if (i, k) in hs and (i, k) not in eqs:
                if same_die(i, j, k):
                    yield DIE_WILDCARD_KEY, "`==` is not transitive among views of one DIE: %s == %s == %s but not %s == %s" % (name(i), name(j), name(k), name(i), name(k))
                    continue
                cnt += 1
                if cnt <= 40:
                    yield "triple:%s|%s|%s|eq" % (name(i), name(j), name(k)), "`==` is not transitive: %s == %s == %s but not %s == %s" % (name(i), name(j), name(k), name(i), name(k))
    # < must respect ==  (a == b and b < c  =>  a < c)
    cnt = 0
    for i, j in sorted(eqs):
        for k in succ_lt.get(j, ()):
            if (i, k) in hs and (i, k) not in lts:
                if same_die(i, j):
                    yield DIE_WILDCARD_KEY, "%s == %s and %s < %s but not %s < %s (views of one DIE)" % (name(i), name(j), name(j), name(k), name(i), name(k))
                    continue
                cnt += 1
                if cnt <= 20:
                    yield "triple:%s|%s|%s|eqlt" % (name(i), name(j), name(k)), "%s == %s and %s < %s but not %s < %s" % (name(i), name(j), name(j), name(k), name(i), name(k))


def seq_law(d, pool, canon, M):
    """[a] vs [b] must order like a vs b (sequences compare element-wise)."""
    out = []
    W = {w: k for k, w in enumerate(WORDS)}
    alts = ", ".join("([%s])" % s for s, _ in pool)
    q = "(|X Y| [(X Y ?lt 1 || 0), (X Y ?eq 1 || 0), (X Y ?gt 1 || 0)])"
    cmds = [drv.run_cmd(q, p="(|D E F G H I| ([%s]) (%s))" % (pool[i][0], alts), i="d1,d2,d3,d4,d5,d6", lim=3) for i in range(len(pool))]
    n = 0
    for i, r in enumerate(d.batch(cmds)):
        cur = None
        gi = -1
        if r.crash:
            out.append(("seqlaw:%s|crash" % pool[i][0], "comparing [%s] with sequences of the pool died: %s %s" % (pool[i][0], r.crash[0], r.crash[1][-500:])))
            continue
        for l in r.lines:
            if l.startswith("g "):
                gi += 1
                cur = gi if (gi < len(canon) and l[2:].split(" ")[-1] == "[" + canon[gi] + "]@0") else None
            elif l.startswith("r ") and cur is not None and (i, cur) in M:
                seq = l[2:].split(" ")[-1]
                fl = parse_flags(seq)
                m = M[(i, cur)]
                n += 1
                if len(fl) == 3 and fl != (m[W["?lt"]], m[W["?eq"]], m[W["?gt"]]):
                    out.append(("seqlaw:%s|%s" % (pool[i][0], pool[cur][0]), "(%s, %s) compare lt/eq/gt = %r but ([%s], [%s]) compare %r: sequences must compare element-wise" % (
                        pool[i][0], pool[cur][0], (m[W["?lt"]], m[W["?eq"]], m[W["?gt"]]), pool[i][0], pool[cur][0], fl)))
    return n, out


def run_all(binary, tier):
    d = drv.Drv(binary, "full", timeout=120, cmd_timeout=60)
    files = [F1, F2, F3, F4, F5, F6]
    for k, f in enumerate(files):
        d.setup("open id=d%d path=%s" % (k + 1, drv.hx(f)))
    pool = core_pool(tier) + dw_pool(tier)
    canon, M, problems = build_matrix(d, pool, files)
    viol = []
    for kind, s, info in problems:
        viol.append(("pool:%s|%s" % (s, kind), "snippet `%s`: %s %r" % (s, kind, info if not isinstance(info, tuple) else (info[0], info[1][-400:]))))
    viol += list(analyse(pool, canon, M))
    nseq, sv = seq_law(d, pool, canon, M)
    viol += sv
    viol += closure_copy_law(d)
    viol += attr_distinct_law(d)
    d.close()
    return pool, canon, M, viol, nseq


CLOSURES = ['{1}', '{}', '1 (|A| {A})', '"x" (|A| {A A})', '[1] (|A| {A elem})', '1 (|A| 2 (|B| {A B add}))', '1 (|A| {A} (|F| {F}))', '{1} (|F| [F]) ', '1 (|A| [{A}, 2])',
            '1 (|A| {A}) (|F| {F F})']


def closure_copy_law(d):
    """The order axioms exclude the hidden closure type, the copy clause does not: a value always equals its own copy."""
    out = []
    for s in CLOSURES:
        for copyq, how in (("%s dup" % s, "dup"), ("[%s] dup (elem) swap (elem)" % s, "elements of a sequence and of its copy")):
            r1, r2 = d.batch([drv.run_cmd(copyq + " ?eq", lim=3), drv.run_cmd(copyq + " !eq", lim=3)])
            if r1.crash or r2.crash or r1.first("qerr") or r1.first("e"):
                out.append(("closure-copy:%s|%s|odd" % (s, how), "`%s ?eq`: %r %r" % (copyq, r1.lines[:2], (r1.crash or r2.crash))))
            elif len(r1.results()) != 1 or r2.results():
                out.append(("closure-copy:%s|%s" % (s, how), "a value does not equal its own copy: `%s ?eq` yields %d results and `%s !eq` yields %d (%s)" % (
                    copyq, len(r1.results()), copyq, len(r2.results()), how)))
    return out


def attr_distinct_law(d):
    """Two different attributes of one DIE are never `==` (whatever their forms: a zero-sized flag_present attribute shares
    its data address with the attribute stored after it), and every attribute equals itself."""
    out = []
    for f in ("/repo/tests/enum.o", "/repo/tests/nullptr.o", "/repo/tests/typedef.o"):
        if not os.path.exists(f):
            continue
        rs = d.batch(["open id=x1 path=" + drv.hx(f),
                      drv.run_cmd("entry (|D| [D attribute] (|L| L elem (|A| L elem (|B| (A pos != B pos) (A == B) [D offset, A label, B label]))))", i="x1", lim=5),
                      drv.run_cmd("entry attribute (|A| (A != A))", i="x1", lim=5), "close id=x1"])
        for name, r in (("distinct attributes of one DIE compare equal", rs[1]), ("an attribute differs from itself", rs[2])):
            if r.crash or r.results() or r.first("e"):
                out.append(("attr-distinct:%s|%s" % (os.path.basename(f), name), "%s on %s: %r" % (name, f, r.lines[:3])))
    return out


_replay_cache = []


def replay(case):
    # the whole matrix is one deterministic computation: it is recomputed once (in a fresh driver) and every alarm is looked up in it
    if not _replay_cache:
        ctx = common.Ctx("C09", "quick")
        _, _, _, viol, _ = run_all(ctx.bin("zwdrv"), "quick")
        _replay_cache.append({k for k, _ in viol})
    return case["key"] in _replay_cache[0]


def main(ctx):
    bins = ctx.build(["zwdrv"])
    pool, canon, M, viol, nseq = run_all(bins["zwdrv"], ctx.tier)
    for key, what in viol:
        ctx.violation(key, what, {"key": key})
    n = len(pool)
    ctx.count("pool", n)
    ctx.count("pairs", len(M))
    ctx.count("word_evaluations", len(M) * (len(WORDS) + len(INFIX)) + nseq * 3)
    ctx.count("triples_checked", n * n * n)
    ctx.sample({"pair": ["1", "0x1"], "flags(?lt !lt ?gt !gt ?eq ...)": list(M.get((1, 2), ()))})
    ctx.sample({"pool": [s for s, _ in pool][:20]})
    cov = {
        "states": len(M),
        "transitions": ctx.counts["word_evaluations"],
        "traces_validated_against_impl": len(M),
        "evaluations": ctx.counts["word_evaluations"],
        "distinct_nontrivial": len(M),
        "rule": "state = ordered pair of pool values with its complete vector of 12 word and 6 infix outcomes evaluated on the engine; every axiom is then decided on "
                "the matrix for all pairs and all triples; distinct = distinct ordered pair",
        "bounds": {"pool_size": n, "files": [F1, F2, F3, F4, F5, F6], "closure_type": "excluded from the order axioms as stated; the copy clause is checked on %d closure values (with and without captured values)" % len(CLOSURES)},
    }
    return ctx.finish("model_checking", cov, [
        "the order between values of different types and between unrelated constant domains is unspecified; only consistency (total order axioms) is demanded there",
        "documented orders (integers by value across arithmetic domains, strings bytewise, sequences by length then element-wise) are compared for the pool entries that carry a semantic key",
    ], replay)
