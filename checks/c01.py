"""C01 - each construct acts on every input stack independently (stream semantics).

Enumerates every Z_3 transformer T up to a size bound (DESIGN.md §2.2) plus
the spine family, runs each on every single input and behind every stream
prefix G on the real engine, and checks
  (a) union law on the implementation alone:
        results(G T) == (+) results(T on g_i)       (multisets)
  (b) agreement with the reference interpreter, ordered where the
      documentation fixes the order.
"""
import ast as _ast, itertools
import common, drv, zwgen, zwmodel
from zwmodel import Cst

K = zwgen.K
_tabs = {}


def type_codes(d):
    codes = {}
    for t in ("T_CONST", "T_STR", "T_SEQ", "T_CLOSURE"):
        codes[t] = int(d.run(t).results()[0].split(":")[2].split("@")[0])
    return codes


def streams(tier):
    if tier == "thorough":
        s = [list(p) for p in itertools.product(range(K), repeat=2)]
        s += [list(p) for p in itertools.permutations(range(K))] + [[v] * 3 for v in range(K)]
        return s
    return [[0, 1, 2], [2, 1, 0], [0, 0], [1, 1], [2, 2], [1, 0]]


def groups(resp):
    gs = []
    for l in resp.lines:
        if l.startswith("g "):
            gs.append({"in": l[2:], "res": [], "odd": []})
        elif l.startswith("r ") and gs:
            gs[-1]["res"].append(l[2:])
        elif gs:
            gs[-1]["odd"].append(l)
        else:
            gs.append({"in": None, "res": [], "odd": [l]})
    return gs


def same(got, exp, run):
    return zwmodel.compare(got, exp, run) == "ok"


def program_cmds(t, strms, deep):
    q = zwmodel.render(t)
    cmds = [drv.run_cmd(q, p="(0, 1, 2)")]
    if deep:
        cmds.append(drv.run_cmd(q, p="(0, 1, 2) (0, 1, 2)"))
    for g in strms:
        cmds.append(drv.run_cmd("(" + ", ".join(map(str, g)) + ") " + q))
    return cmds


def judge_program(d, name, t, strms, deep):
    return judge_responses(name, t, strms, deep, d.batch(program_cmds(t, strms, deep)))


def judge_responses(name, t, strms, deep, rs):
    """Returns (n_exec, n_pulls, list of (key, what, case), n_unjudged, outcome signature)."""
    q = zwmodel.render(t)
    inputs = [[v] for v in range(K)]
    if deep:
        inputs += [[w, v] for w in range(K) for v in range(K)]
    bad, nexec, pulls, unj = [], 0, 0, 0
    case = {"name": name, "ast": repr(t)}

    def viol(kind, what):
        bad.append(("prog:%s|%s" % (q, kind), "`%s` (%s): %s" % (q, name, what), dict(case, kind=kind)))

    for r in rs:
        if r.crash:
            viol("crash", "driver died: %s %s" % (r.crash[0], r.crash[1][-600:]))
            return nexec, pulls, bad, unj, "crash"
        if r.contract():
            viol("contract", "API contract: %r" % r.contract())
    per_input = {}
    gs = groups(rs[0]) + (groups(rs[1]) if deep else [])
    if len(gs) != len(inputs):
        viol("prefix", "prefix produced %d inputs, expected %d: %r" % (len(gs), len(inputs), rs[0].lines[:4]))
        return nexec, pulls, bad, unj, "prefix"
    sig = []
    try:
        # the prefix of the deep inputs is itself an ALT behind an ALT: identify each group by the input it reports
        gs.sort(key=lambda g: inputs.index([int(x.split(":")[2].split("@")[0]) for x in g["in"].split(" ")]))
    except (ValueError, AttributeError, IndexError):
        viol("prefix", "prefix produced unexpected inputs: %r" % [g["in"] for g in gs][:12])
        return nexec, pulls, bad, unj, "prefix"
    for inp, g in zip(inputs, gs):
        nexec += 1
        pulls += len(g["res"]) + 1
        key = ",".join(map(str, inp))
        if g["odd"]:
            viol("in:%s:odd" % key, "unexpected engine output %r" % g["odd"][:3])
            continue
        per_input[tuple(inp)] = g["res"]
        sig.append(len(g["res"]))
        try:
            exp, run = zwmodel.run(t, tuple(Cst(v) for v in inp))
        except zwmodel.Unjudged:
            unj += 1
            continue
        if not same(g["res"], exp, run):
            viol("in:%s" % key, "on input [%s] engine yields %r, documented meaning %r (%s)" % (
                key, g["res"], exp, "as multiset" if run.taint else "in order"))
    allerr = b"".join(r.stderr for r in rs)
    if allerr:
        viol("stderr", "diagnostics on a well-formed program: %r" % allerr[:300])
    # streams
    for g, r in zip(strms, rs[(2 if deep else 1):]):
        nexec += 1
        got = r.results()
        pulls += len(got) + 1
        key = ",".join(map(str, g))
        odd = [l for l in r.lines if not l.startswith("r ")]
        if odd:
            viol("stream:%s:odd" % key, "unexpected engine output %r" % odd[:3])
            continue
        if all((v,) in per_input for v in g):
            union = []
            for v in g:
                union += per_input[(v,)]
            if sorted(map(zwmodel.wild, got)) != sorted(map(zwmodel.wild, union)):
                viol("union:%s" % key, "union law broken: `(%s) T` yields %r but T alone on each input yields %r" % (
                    ", ".join(map(str, g)), got, union))
                continue
        try:
            prog = zwgen.cat(("alt", [zwgen.I(v) for v in g]), t)
            exp, run = zwmodel.run(prog, ())
        except zwmodel.Unjudged:
            unj += 1
            continue
        if not same(got, exp, run):
            viol("stream:%s" % key, "behind the stream (%s) engine yields %r, documented meaning %r (%s)" % (
                key, got, exp, "as multiset" if run.taint else "in order"))
    return nexec, pulls, bad, unj, tuple(sig)


def _worker(d, task, extra):
    zwmodel.set_type_codes(extra["codes"])
    strms, deep = extra["streams"], extra["deep"]
    kind = task[0]
    if kind == "size":
        _, s, k, m = task
        if s not in _tabs:
            _tabs[s] = zwgen.by_size(s - 1) if s > 1 else {}
        progs = itertools.islice(zwgen.iter_size(s, _tabs[s]), k, None, m)
    elif kind == "guard":
        _, smax, depth, k, m = task
        progs = itertools.islice(zwgen.guarded(guard_bodies(smax), depth), k, None, m)
    else:
        _, depth, k, m = task
        progs = itertools.islice(zwgen.spine(depth), k, None, m)
    out = {"programs": 0, "exec": 0, "pulls": 0, "unjudged": 0, "bad": [], "sigs": {}, "sample": None}

    def account(name, t, rs):
        ne, pu, bad, unj, sig = judge_responses(name, t, strms, deep, rs)
        out["programs"] += 1
        out["exec"] += ne
        out["pulls"] += pu
        out["unjudged"] += unj
        out["bad"].extend(bad[:3])
        out["sigs"][sig] = out["sigs"].get(sig, 0) + 1
        if out["sample"] is None:
            out["sample"] = {"program": zwmodel.render(t), "results_per_input": list(sig) if isinstance(sig, tuple) else sig}

    # two groups of programs in flight: the engine works on one while the model judges the other
    pending = None
    for grp in common.chunks(progs, 6):
        cmdl = [program_cmds(t, strms, deep) for _, t in grp]
        d.send([c for cl in cmdl for c in cl])
        if pending is not None:
            for (name, t), cl in zip(*pending):
                account(name, t, d.recv(len(cl)))
        pending = (grp, cmdl)
    if pending is not None:
        for (name, t), cl in zip(*pending):
            account(name, t, d.recv(len(cl)))
    return out


def guard_bodies(smax):
    """Bodies for the guarded family: smax = 3 means everything up to 3 nodes; 2.5 means up to 2 nodes plus the
    3-node programs whose root is a binary constructor (ALT, OR, comparison, format with two splices)."""
    full = int(smax)
    if ("g", smax) not in _tabs:
        tab = zwgen.by_size(full)
        progs = [p for s in range(1, full + 1) for p in tab[s]]
        if smax != full:
            progs += list(zwgen.iter_size(full + 1, tab, unary={}, ternary={}))
        _tabs[("g", smax)] = progs
    return _tabs[("g", smax)]


def replay(case):
    ctx = common.Ctx("C01", "quick")
    d = drv.Drv(ctx.bin("zwdrv"), "core")
    try:
        zwmodel.set_type_codes(type_codes(d))
        t = _ast.literal_eval(case["ast"])
        _, _, bad, _, _ = judge_program(d, case["name"], t, streams("thorough"), True)
        # any violation on the same program counts as a reproduction (with the deeper inputs of the replay a defect may
        # surface under another kind, e.g. already in the input prefix)
        return bool(bad)
    finally:
        d.close()


def main(ctx):
    bins = ctx.build(["zwdrv"])
    d = drv.Drv(bins["zwdrv"], "core")
    codes = type_codes(d)
    d.close()
    thorough = ctx.tier == "thorough"
    smax = 5 if thorough else 4
    sdepth = 4 if thorough else 3
    deep = thorough
    extra = {"codes": codes, "streams": streams(ctx.tier), "deep": deep}
    counts = {}
    for s in range(1, smax + 1):
        counts[s] = zwgen.count_size(s, counts)

    def size_tasks(sizes):
        tl = []
        for s in sizes:
            m = max(1, min(512, counts[s] // 400))
            tl += [("size", s, k, m) for k in range(m)]
        return tl

    # sanitized engine: everything up to 4 nodes and the depth-3 spine, all streams;
    # thorough adds 5 nodes and the depth-4 spine on the plain (-O2, asserts and hook on) engine
    # guarded family: a guard that rejects some inputs outright in front of every small program, inside every context
    gsize = 3 if thorough else 2.5
    parts = [("san", extra, size_tasks(range(1, 5)) + [("spine", 3, k, 64) for k in range(64)]
              + [("guard", gsize, 1, k, 128) for k in range(128)])]
    if thorough:
        fast = ctx.build(["zwdrv"], "fast")["zwdrv"]
        extra2 = {"codes": codes, "streams": streams("quick"), "deep": True}
        parts.append(("fast", extra2, size_tasks([5]) + [("spine", 4, k, 1024) for k in range(1024)]
                      + [("guard", 2, 2, k, 512) for k in range(512)]))
    sigs = {}
    for variant, ex, tl in parts:
        binary = bins["zwdrv"] if variant == "san" else fast
        for r in common.pmap(ctx, _worker, tl, binary, "core", extra=ex, timeout=60):
            ctx.count("programs", r["programs"])
            ctx.count("programs_on_%s_engine" % variant, r["programs"])
            ctx.count("executions", r["exec"])
            ctx.count("pulls", r["pulls"])
            ctx.count("unjudged_by_model", r["unjudged"])
            for k, v in r["sigs"].items():
                sigs[k] = sigs.get(k, 0) + v
            if r["sample"]:
                ctx.sample(r["sample"])
            for key, what, case in r["bad"]:
                ctx.violation(key, what, case)
    nprog = ctx.counts.get("programs", 0)
    cov = {
        "states": ctx.counts.get("executions", 0),
        "transitions": ctx.counts.get("pulls", 0),
        "traces_validated_against_impl": ctx.counts.get("executions", 0) - ctx.counts.get("unjudged_by_model", 0),
        "evaluations": ctx.counts.get("executions", 0),
        "distinct_nontrivial": nprog,
        "distinct_outcomes": len(sigs),
        "rule": "state = (program, input stack or stream) executed to exhaustion on the engine; transition = one zw_result_next; "
                "programs are all Z_3 transformers up to %d nodes plus every constructor chain of depth %d plus the guarded family "
                "(a guard rejecting some inputs, then every program of the body bound, inside every one-hole context); distinct = distinct program text; "
                "distinct_outcomes = distinct vectors of result counts per input" % (smax, sdepth),
        "bounds": {"max_nodes": smax, "programs_per_size": counts, "spine_depth": sdepth, "guarded_family": {"body_nodes": gsize, "context_depth": 1, "guards": ["?z", "!z"],
                   "also_on_fast_engine": {"body_nodes": 2, "context_depth": 2} if thorough else None}, "inputs": "all [v]" + (", all [w v]" if deep else ""),
                   "streams": extra["streams"], "streams_for_5_nodes_and_depth_4": streams("quick") if thorough else None},
    }
    return ctx.finish("model_checking", cov, [
        "reference interpreter lib/zwmodel.py implements doc/syntax.rst; orders the documentation leaves open (ALT fed several stacks, closures, E?) are compared as multisets",
        "programs larger than the size bound outside the spine family are not explored; the 'randomly beyond' clause is not decided",
    ], replay)
