"""C02 - the raw view reports exactly the DIE tree stored in .debug_info.

Enumerates every ordered forest of up to N DIEs split over 1-3 units (single
root "empty" units, last child of last unit, deep chains ...), x every subset
of leaves carrying the children flag with an immediate null entry, x DWARF
version {2,3,4,5} x {32,64}-bit offsets x with/without DW_AT_sibling, with
attributes from a menu of common forms; writes each as an ELF file and runs a
fixed battery of raw-view queries on the engine.  Oracle: the generator's own
model (offsets are assigned by the generator's layout).
"""
import itertools, os, json
import common, drv
import elfgen as g, dwmodel, dwbattery
from dwbattery import Battery

BAT = Battery({
    "units": ("raw unit", None),
    "entries": ("raw entry", None),
    "unit_entries": ("entry", "raw unit"),
    "unit_root": ("root", "raw unit"),
    "parent": ("parent", "raw entry"),
    "child": ("child", "raw entry"),
    "haschildren": ("?haschildren", "raw entry"),
    "nochildren": ("!haschildren", "raw entry"),
    "label": ("label", "raw entry"),
    "offset": ("offset", "raw entry"),
    "attrs": ("attribute", "raw entry"),
    "attr_label": ("attribute label", "raw entry"),
    "attr_form": ("attribute form", "raw entry"),
    "root": ("root", "raw entry"),
    "isroot": ("?root", "raw entry"),
    "unit": ("unit", "raw entry"),
})


def expected(view):
    fid = view.fid
    DC = lambda d, pos=0: dwmodel.die_canon(fid, d, True, (), pos)
    ents = view.raw_entries()
    e = {}
    e["units"] = [dwmodel.unit_canon(fid, u, True, i) for i, u in enumerate(view.units)]
    e["entries"] = [DC(d, i) for i, d in enumerate(ents)]
    e["unit_entries"] = [(dwmodel.unit_canon(fid, u, True, i), [dwmodel.unit_canon(fid, u, True, i) and DC(d, k) for k, d in enumerate(u.dies)])
                         for i, u in enumerate(view.units)]
    e["unit_root"] = [(dwmodel.unit_canon(fid, u, True, i), [DC(u.root, 0)]) for i, u in enumerate(view.units)]

    def per(fn):
        return [(DC(d, i), fn(d)) for i, d in enumerate(ents)]

    e["parent"] = per(lambda d: [DC(d.parent)] if d.parent is not None else [])
    e["child"] = per(lambda d: [DC(c, k) for k, c in enumerate(d.children)])
    e["haschildren"] = [(DC(d, i), [DC(d, i)] if d.has_children else []) for i, d in enumerate(ents)]
    e["nochildren"] = [(DC(d, i), [] if d.has_children else [DC(d, i)]) for i, d in enumerate(ents)]
    e["label"] = per(lambda d: ["c:DW_TAG_:%d@0" % g.cst(d.tag)])
    e["offset"] = per(lambda d: ["c:Dwarf_Off:%d@0" % d.offset])
    e["attrs"] = per(lambda d: [dwmodel.attr_canon(fid, g.cst(a.name), g.cst(a.form), d, True, k) for k, a in enumerate(d.attrs)])
    e["attr_label"] = per(lambda d: ["c:DW_AT_:%d@0" % g.cst(a.name) for a in d.attrs])
    e["attr_form"] = per(lambda d: ["c:DW_FORM_:%d@0" % g.cst(a.form) for a in d.attrs])
    e["root"] = per(lambda d: [DC(d.unit.root)])
    e["isroot"] = [(DC(d, i), [DC(d, i)] if d.parent is None else []) for i, d in enumerate(ents)]
    e["unit"] = per(lambda d: [dwmodel.unit_canon(fid, d.unit, True, 0)])
    return e


def configs(thorough):
    cfg = [(v, o) for v in (2, 3, 4, 5) for o in (4, 8)]
    return cfg


def cases(ndies, thorough):
    """Yield (descriptor, builder) for every file of the family."""
    cfgs = configs(thorough)
    idx = 0
    for n in range(1, ndies + 1):
        for shape in dwbattery.unit_shapes(n, 3):
            lv = []
            for ui, t in enumerate(shape):
                lv += [(ui, p) for p in dwbattery.leaves(t)]
            for r in range(len(lv) + 1):
                for flagged in itertools.combinations(lv, r):
                    if thorough:
                        for ci in range(len(cfgs)):
                            yield (n, shape, flagged, ci, (idx + ci) % 2)
                    else:
                        yield (n, shape, flagged, idx % len(cfgs), (idx // len(cfgs)) % 2)
                    idx += 1


ATTR_ALPHABET = [("DW_AT_name", "DW_FORM_string", b"a"), ("DW_AT_name", "DW_FORM_strp", b"pooled"), ("DW_AT_decl_line", "DW_FORM_data1", 7),
                 ("DW_AT_decl_line", "DW_FORM_data2", 300), ("DW_AT_byte_size", "DW_FORM_data1", 4), ("DW_AT_external", "DW_FORM_flag", 1)]


def build_attr_lists(maxlen, ci):
    """One unit whose DIEs carry every attribute list of up to maxlen entries over ATTR_ALPHABET - the same name may
    occur several times, with the same or another form; every third DIE is the child of its predecessor."""
    version, osz = configs(True)[ci]
    kids, i = [], 0
    for n in range(0, maxlen + 1):
        for seq in itertools.product(ATTR_ALPHABET, repeat=n):
            d = g.Die(dwbattery.TAGS[i % len(dwbattery.TAGS)], [g.Attr(*x) for x in seq])
            if i % 3 == 2:
                kids[-1].children.append(d)
            else:
                kids.append(d)
            i += 1
    root = g.cu_root(b"attrs.c", version=version, offset_size=osz, children=kids)
    return g.ElfFile([g.Unit(root, version, osz)])


UNIT_KINDS = ["DW_TAG_compile_unit", "DW_TAG_partial_unit", "DW_TAG_type_unit", "DW_TAG_skeleton_unit"]


def kind_cases(maxunits):
    for n in range(1, maxunits + 1):
        for kinds in itertools.product(range(len(UNIT_KINDS)), repeat=n):
            for osz in (4, 8):
                yield ("kinds", list(kinds), osz)


def build_unit_kinds(kinds, osz):
    """DWARF 5 file whose units are of the given kinds (compile, partial, type with signature and type DIE, skeleton)."""
    units = []
    for ui, k in enumerate(kinds):
        tag = UNIT_KINDS[k]
        t = g.Die("DW_TAG_structure_type", [g.Attr("DW_AT_name", "DW_FORM_string", b"S%d" % ui), g.Attr("DW_AT_byte_size", "DW_FORM_data1", 4)],
                  [g.Die("DW_TAG_member", [g.Attr("DW_AT_name", "DW_FORM_string", b"m")])])
        kids = [t, g.Die("DW_TAG_variable", [g.Attr("DW_AT_name", "DW_FORM_string", b"v%d" % ui)])]
        root = g.cu_root(b"k%d.c" % ui, version=5, offset_size=osz, children=kids, tag=tag, low_pc=None)
        units.append(g.Unit(root, 5, osz, type_signature=0x1122334455667700 + ui, type_die=t, dwo_id=0xabcdef00 + ui))
    return g.ElfFile(units)


def build(desc):
    if desc[0] == "attrs":
        return build_attr_lists(desc[1], desc[2])
    if desc[0] == "kinds":
        return build_unit_kinds(desc[1], desc[2])
    n, shape, flagged, ci, sib = desc
    version, osz = configs(True)[ci]
    units = []
    counter = [ci + len(flagged)]
    for ui, t in enumerate(shape):
        lf = {p for (u, p) in flagged if u == ui}
        units.append(dwbattery.build_unit(t, version, osz, ui, lf, bool(sib), b"u%d.c" % ui, counter=counter))
    return g.ElfFile(units)


def order_cases(ndies, maxunits):
    """(shape, config index) for every forest with 2..maxunits units."""
    idx = 0
    for n in range(2, ndies + 1):
        for shape in dwbattery.unit_shapes(n, maxunits):
            if len(shape) >= 2:
                yield (n, shape, idx % 8)
                idx += 1


def _order_worker(d, chunk, extra):
    """Caches keyed by unit must not depend on the order in which units are first visited: for every permutation of
    the units, on a freshly opened file, ask for the parent of every DIE and whether it is a root, unit by unit in that order."""
    import zwmodel
    os.makedirs(dwbattery.DWDIR, exist_ok=True)
    path = os.path.join(dwbattery.DWDIR, "c02o-%d.o" % os.getpid())
    out = {"files": 0, "queries": 0, "results": 0, "dies": 0, "bad": []}
    for n, shape, ci in chunk:
        elf = build((n, shape, (), ci, 0))
        elf.write(path)
        view = dwmodel.View(elf, 1)
        out["files"] += 1
        for perm in itertools.permutations(range(len(shape))):
            for raw in (True, False):
                sel = ", ".join("%sunit (pos == %d)" % ("raw " if raw else "", k) for k in perm)
                q = "(%s) entry (|E| [E offset] [E parent offset] add [E ?root offset] add)" % sel
                rs = d.batch(["open id=po path=" + drv.hx(path), drv.run_cmd(q, i="po", lim=200), "close id=po"])
                r = rs[1]
                out["queries"] += 1
                exp = []
                for k in perm:
                    for die in view.units[k].dies:
                        exp.append("[" + ",".join("c:Dwarf_Off:%d@*" % x.offset for x in ([die] + ([die.parent] if die.parent is not None else [die]))) + "]@*")
                got = [zwmodel.wild(x) for x in r.results()]
                out["results"] += len(got)
                if r.crash or got != exp or len(r.lines) != len(exp):
                    out["bad"].append(("order:%s|%s|%s" % (json.dumps([n, shape, ci]), perm, raw),
                                       "forest %s (config %d), units visited in the order %s on a freshly opened file: `%s` yields %s, stored parents are %s%s" % (
                                           shape, ci, list(perm), q, got[:12], exp[:12], " (%s)" % (r.crash,) if r.crash else ""),
                                       {"order": json.dumps([n, shape, ci])}))
                    break
    try:
        os.unlink(path)
    except OSError:
        pass
    out["bad"] = out["bad"][:6]
    return out


GCC_SOURCE = b"""
struct S { int a; struct S *next; }; union U { int i; float f; }; enum E { E0, E1 = 5 };
typedef struct S S_t; static S_t g1; union U g2; enum E g3;
int f (int x) { S_t l; l.a = x; { int inner = x * 2; l.a += inner; } return l.a + g2.i + (int) g3; }
int main (void) { return f (3); }
"""


def gcc_cases(thorough):
    flags = [["-gdwarf-%d" % v] + t + o for v in (2, 3, 4, 5) for t in ([], ["-fdebug-types-section"]) for o in ([["-O0"], ["-O2"]] if thorough else [["-O0"]])]
    return [f for f in flags]


def _gcc_worker(d, chunk, extra):
    """Compiler-produced objects: the raw view lists exactly the units and DIEs that an independent reader (lib/dwread.py)
    finds in .debug_info - whatever other DWARF sections (.debug_types) the file has."""
    import subprocess, shutil, dwread
    out = {"files": 0, "queries": 0, "results": 0, "dies": 0, "bad": []}
    if not shutil.which("gcc"):
        return out
    os.makedirs(dwbattery.DWDIR, exist_ok=True)
    src = os.path.join(dwbattery.DWDIR, "c02g-%d.c" % os.getpid())
    obj = os.path.join(dwbattery.DWDIR, "c02g-%d.o" % os.getpid())
    open(src, "wb").write(GCC_SOURCE)
    for flags in chunk:
        # unlinked objects keep type units in COMDAT groups (several .debug_info sections): only the plain ones are compared unlinked
        for link in ((True,) if "-fdebug-types-section" in flags else (False, True)):
            cmd = ["gcc", "-g", "-w"] + flags + (["-shared", "-fPIC", "-nostdlib"] if link else ["-c"]) + ["-o", obj, src]
            p = subprocess.run(cmd, stdout=subprocess.PIPE, stderr=subprocess.PIPE)
            if p.returncode != 0:
                continue
            try:
                rd = dwread.ElfReader(obj)
                us = rd.units() if callable(rd.units) else rd.units
                units = [u for u in us if u.section == ".debug_info"]
            except Exception as e:
                continue
            exp_units = ["c:Dwarf_Off:%d@0" % u.root.offset for u in units]
            exp_dies = ["c:Dwarf_Off:%d@0" % x.offset for u in units for x in u.root.walk()]
            exp_par = ["[" + ",".join("c:Dwarf_Off:%d@0" % y.offset for y in ([x] + ([x.parent] if x.parent is not None else []))) + "]@0" for u in units for x in u.root.walk()]
            rs = d.batch(["open id=g1 path=" + drv.hx(obj), drv.run_cmd("raw unit root offset", i="g1", lim=100000), drv.run_cmd("raw entry offset", i="g1", lim=100000),
                          drv.run_cmd("raw entry (|E| [E offset] [E parent offset] add)", i="g1", lim=100000), "close id=g1"])
            out["files"] += 1
            out["queries"] += 3
            out["dies"] += len(exp_dies)
            for name, r, exp in (("raw unit root offset", rs[1], exp_units), ("raw entry offset", rs[2], exp_dies), ("raw entry with parent", rs[3], exp_par)):
                out["results"] += len(r.results())
                got = r.results()
                if r.crash or got != exp or len(r.lines) != len(exp):
                    k = next((i for i, (a, b) in enumerate(zip(got, exp)) if a != b), min(len(got), len(exp)))
                    out["bad"].append(("gcc:%s:%d|%s" % (" ".join(flags), link, name), "gcc %s (%s): `%s` yields %d results, .debug_info holds %d; first difference at #%d: %s vs %s; other output %r" % (
                        " ".join(flags), "linked" if link else "object", name, len(got), len(exp), k, got[k:k + 1], exp[k:k + 1], [l for l in r.lines if not l.startswith("r ")][:2]),
                        {"gcc": flags, "qid": name}))
    for f in (src, obj):
        try:
            os.unlink(f)
        except OSError:
            pass
    return out


def _worker(d, task, extra):
    ndies, thorough, k, m = task
    path = os.path.join(dwbattery.DWDIR, "c02-%d.o" % os.getpid())
    os.makedirs(dwbattery.DWDIR, exist_ok=True)
    out = {"files": 0, "queries": 0, "results": 0, "dies": 0, "bad": []}
    if ndies == "attrs":
        src = [("attrs", thorough, k)]
    elif ndies == "kinds":
        src = itertools.islice(kind_cases(thorough), k, None, m)
    else:
        src = itertools.islice(cases(ndies, thorough), k, None, m)
    for desc in src:
        elf = build(desc)
        nq, nr, bad = dwbattery.run_file(d, BAT, elf, path, None) if False else (0, 0, [])
        elf.write(path)
        view = dwmodel.View(elf, 1)
        nq, nr, bad = dwbattery.run_file(d, BAT, elf, path, expected(view))
        out["files"] += 1
        out["queries"] += nq
        out["results"] += nr
        out["dies"] += len(view.raw_entries())
        for qid, what in bad[:2]:
            if desc[0] == "kinds":
                out["bad"].append(("file:%s|%s" % (json.dumps(desc), qid), "DWARF 5 units of kinds %s, %d-byte offsets: %s" % (
                    [UNIT_KINDS[k][7:] for k in desc[1]], desc[2], what), {"desc": json.dumps(desc), "qid": qid}))
                continue
            if desc[0] == "attrs":
                out["bad"].append(("file:%s|%s" % (json.dumps(desc), qid), "attribute-list family (lists up to %d entries, DWARF %d, %d-byte offsets): %s" % (
                    desc[1], configs(True)[desc[2]][0], configs(True)[desc[2]][1], what), {"desc": json.dumps(desc), "qid": qid}))
                continue
            n, shape, flagged, ci, sib = desc
            out["bad"].append(("file:%s|%s" % (json.dumps([n, shape, flagged, ci, sib]), qid),
                               "forest %s (flagged leaves %s, DWARF %d, %d-byte offsets, sibling=%d): %s" % (shape, list(flagged), configs(True)[ci][0], configs(True)[ci][1], sib, what),
                               {"desc": json.dumps([n, shape, flagged, ci, sib]), "qid": qid}))
    try:
        os.unlink(path)
    except OSError:
        pass
    out["bad"] = out["bad"][:8]
    return out


def to_tuple(x):
    return tuple(to_tuple(i) for i in x) if isinstance(x, list) else x


def replay(case):
    ctx = common.Ctx("C02", "quick")
    d = drv.Drv(ctx.bin("zwdrv"), "full")
    try:
        if "gcc" in case:
            return bool(_gcc_worker(d, [case["gcc"]], None)["bad"])
        if "order" in case:
            n, shape, ci = json.loads(case["order"])
            return bool(_order_worker(d, [(n, [to_tuple(t) for t in shape], ci)], None)["bad"])
        desc = json.loads(case["desc"])
        if desc[0] == "kinds":
            desc = ("kinds", desc[1], desc[2])
        elif desc[0] != "attrs":
            n, shape, flagged, ci, sib = desc
            desc = (n, [to_tuple(t) for t in shape], tuple((u, tuple(p)) for u, p in flagged), ci, sib)
        elf = build(desc)
        path = os.path.join(dwbattery.DWDIR, "c02-replay-%d.o" % os.getpid())
        os.makedirs(dwbattery.DWDIR, exist_ok=True)
        elf.write(path)
        _, _, bad = dwbattery.run_file(d, BAT, elf, path, expected(dwmodel.View(elf, 1)))
        os.unlink(path)
        return any(q == case["qid"] for q, _ in bad)
    finally:
        d.close()


def main(ctx):
    bins = ctx.build(["zwdrv"])
    thorough = ctx.tier == "thorough"
    ndies = 8 if thorough else 6
    m = 512
    # every shape is written in all 8 (version, offset size) configurations in both tiers
    alen = 4 if thorough else 3
    kmax = 4 if thorough else 3
    tasks = [("attrs", alen, ci, 1) for ci in range(8)] + [("kinds", kmax, k, 16) for k in range(16)] + [(ndies, True, k, m) for k in range(m)]
    for r in common.pmap(ctx, _worker, tasks, bins["zwdrv"], "full", timeout=120):
        for k in ("files", "queries", "results", "dies"):
            ctx.count(k, r[k])
        for key, what, case in r["bad"]:
            ctx.violation(key, what, case)
    omax = 8 if thorough else 7
    for r in common.pmap(ctx, _order_worker, common.chunks(order_cases(omax, 3), 6), bins["zwdrv"], "full", timeout=120):
        for k in ("files", "queries", "results"):
            ctx.count(k, r[k])
        ctx.count("unit_order_queries", r["queries"])
        for key, what, case in r["bad"]:
            ctx.violation(key, what, case)
    for r in common.pmap(ctx, _gcc_worker, [[f] for f in gcc_cases(thorough)], bins["zwdrv"], "full", timeout=300):
        for k in ("files", "queries", "results"):
            ctx.count(k, r[k])
        ctx.count("gcc_objects", r["files"])
        for key, what, case in r["bad"]:
            ctx.violation(key, what, case)
    ctx.sample({"forest": "[((),), ((), ((),))]  (two units)", "flagged_leaves": "childless DIEs whose abbreviation claims children", "battery": list(BAT.items)})
    n = ctx.counts.get("files", 0)
    cov = {
        "states": n,
        "transitions": ctx.counts.get("queries", 0),
        "traces_validated_against_impl": ctx.counts.get("queries", 0),
        "evaluations": ctx.counts.get("queries", 0),
        "distinct_nontrivial": n,
        "rule": "state = one generated ELF file (forest shape x flagged-leaf subset x version/offset size x sibling attributes); transition = one battery query executed "
                "on it and compared, result by result, with the generator's model; distinct = distinct file",
        "bounds": {"max_dies": ndies, "max_units": 3, "versions": [2, 3, 4, 5], "offset_sizes": [4, 8], "dies_checked": ctx.counts.get("dies", 0),
                   "configs_per_shape": "all 8", "gcc_objects": "one source compiled with -gdwarf-2..5 x with / without -fdebug-types-section, as object and linked; raw units, DIEs and parents vs lib/dwread.py on .debug_info (skipped when gcc is absent)", "unit_kinds": "DWARF 5: every sequence of up to %d units over compile / partial / type / skeleton units, 4- and 8-byte offsets" % kmax, "unit_visit_orders": "every permutation of the units of every forest of <= %d DIEs in 2-3 units, raw and cooked, each on a freshly opened file" % omax, "attribute_lists": {"alphabet": [a[:2] for a in ATTR_ALPHABET], "max_entries": alen,
                                                                       "note": "every list, repeated names included, in all 8 configurations"}},
    }
    return ctx.finish("model_checking", cov, [
        "lib/elfgen.py's layout is the ground truth (validated by lib/test_elfgen.py against an independent reader, readelf and libdw)",
        "compiler-produced objects and the repository's sample binaries are covered by C05/C06's law queries, not by this structural comparison",
    ], replay)
