"""C10 - `*`/`+` yield each reachable stack exactly once per input and terminate.

All digraphs on N nodes given as out-edge *lists* (order and duplicates kept:
self-loops, cycles, diamonds, multi-yield), encoded as a Zwerg body
    (|N| [[..],[..],..] elem ?(pos == N) elem)
x every start node x closure forms and nestings x streams of inputs.  Oracle:
graph reachability computed in Python (independent of the reference
interpreter), each reachable node exactly once per input; the engine is cut off
after |reachable|+1 results, so one result too many or a watchdog expiry is a
violation (termination within the bound).
"""
import itertools
import common, drv, zwmodel


def adj_lists(n, maxlen):
    out = [()]
    for l in range(1, maxlen + 1):
        out += list(itertools.product(range(n), repeat=l))
    return out


def graphs(n, maxlen):
    return itertools.product(adj_lists(n, maxlen), repeat=n)


def body(g):
    lit = "[" + ", ".join("[" + ", ".join(map(str, a)) + "]" for a in g) + "]"
    return "(|N| %s elem ?(pos == N) elem)" % lit


def body2(g):
    # two-slot stacks: (a, b) -> (b, s) for every successor s of a
    lit = "[" + ", ".join("[" + ", ".join(map(str, a)) + "]" for a in g) + "]"
    return "(|A B| B (A (|N| %s elem ?(pos == N) elem)))" % lit


def reach(g, starts):
    seen, work = [], list(starts)
    for s in starts:
        if s not in seen:
            seen.append(s)
    work = list(seen)
    while work:
        x = work.pop()
        for y in g[x]:
            if y not in seen:
                seen.append(y)
                work.append(y)
    return seen


def reach2(g, starts):
    seen = []
    for s in starts:
        if s not in seen:
            seen.append(s)
    work = list(seen)
    while work:
        a, b = work.pop()
        for s in g[a]:
            y = (b, s)
            if y not in seen:
                seen.append(y)
                work.append(y)
    return seen


FORMS = {
    "E*": ("%s*", "star"), "E+": ("%s+", "plus"), "(E*)*": ("(%s*)*", "star"), "(E+)*": ("(%s+)*", "star"),
    "(E*)+": ("(%s*)+", "star"), "((E*)*)*": ("((%s*)*)*", "star"), "(E+)+": ("(%s+)+", "plus"),
    "E**": ("%s**", "star"), "E+*": ("%s+*", "star"), "E*+": ("%s*+", "star"), "E++": ("%s++", "plus"),
    # `?` among the suffixes: X? is (X,), so the start stack is yielded once more (multisets)
    "E+?": ("%s+?", "plus+id"), "E*?": ("%s*?", "star+id"), "E?*": ("%s?*", "star"), "E?+": ("%s?+", "star"),
    "E??": ("%s??", "once+id+id"), "(E+)?": ("(%s+)?", "plus+id"), "E+?*": ("%s+?*", "star"), "E*+?": ("%s*+?", "star+id"),
}
STREAMS = [(0, 1, 2), (2, 2, 1), (0, 0), (1,)]


def expected(g, n, kind, start):
    if kind == "star":
        return reach(g, [start])
    if kind == "star+id":
        return reach(g, [start]) + [start]
    if kind == "plus+id":
        return reach(g, list(g[start])) + [start]
    if kind == "once+id+id":
        return list(g[start]) + [start, start]
    return reach(g, list(g[start]))


def groups(resp):
    gs = []
    for l in resp.lines:
        if l.startswith("g "):
            gs.append({"in": l[2:], "res": [], "odd": []})
        elif l.startswith("r ") and gs:
            gs[-1]["res"].append(l[2:])
        elif gs:
            gs[-1]["odd"].append(l)
        else:
            gs.append({"in": None, "res": [], "odd": [l]})
    return gs


def node_of(res):
    # canonical stack "c:dec:<v>@p" (one slot) -> v ; two slots -> (a, b)
    vals = tuple(int(x.split(":")[2].split("@")[0]) for x in res.split(" "))
    return vals[0] if len(vals) == 1 else vals


def cmds_for(g, n, streams):
    e = body(g)
    prefix = "(" + ", ".join(map(str, range(n))) + ")"
    cmds, meta = [], []
    for name, (tmpl, kind) in FORMS.items():
        # one more than the largest expected result count (`E??` yields the out-list plus the start stack twice)
        cmds.append(drv.run_cmd(tmpl % e, p=prefix, lim=max(n + 2, max(len(a) for a in g) + 3)))
        meta.append(("form", name, kind))
    for st in streams:
        for name in ("E*", "E+", "(E*)*"):
            tmpl, kind = FORMS[name]
            q = "(" + ", ".join(map(str, st)) + ",) " + (tmpl % e) if False else "(%s) %s" % (", ".join(map(str, st)) if len(st) > 1 else "%d" % st[0], tmpl % e)
            cmds.append(drv.run_cmd(q, lim=(n + 1) * len(st) + 1))
            meta.append(("stream", name, kind, st))
    # laws on the implementation alone
    cmds.append(drv.run_cmd("%s?" % e, p=prefix, lim=50))
    meta.append(("law-opt", "E?"))
    cmds.append(drv.run_cmd("(%s,)" % e, p=prefix, lim=50))
    meta.append(("law-opt-ref", "(E,)"))
    cmds.append(drv.run_cmd("%s %s*" % (e, e), p=prefix, lim=200))
    meta.append(("law-plus-ref", "E E*"))
    if n <= 3:
        e2 = body2(g)
        cmds.append(drv.run_cmd("%s*" % e2, p="%s %s" % (prefix, prefix), lim=n * n + 2))
        meta.append(("pair", "E2*", "star"))
    return cmds, meta


def judge(g, n, meta, rs, streams):
    bad, nexec, pulls = [], 0, 0
    gtxt = repr(g)

    def viol(kind, what):
        bad.append(("graph:%d:%s|%s" % (n, gtxt, kind), "graph %s, %s" % (gtxt, what), {"n": n, "g": [list(a) for a in g], "kind": kind}))

    plus_impl = None
    opt = {}
    for m, r in zip(meta, rs):
        if r.crash:
            viol(m[1] + ":crash", "`%s` died: %s %s" % (m[1], r.crash[0], r.crash[1][-500:]))
            continue
        if r.stderr:
            viol(m[1] + ":stderr", "`%s` printed diagnostics: %r" % (m[1], r.stderr[:200]))
        if m[0] == "form":
            gs = groups(r)
            if len(gs) != n:
                viol(m[1] + ":prefix", "prefix gave %d inputs: %r" % (len(gs), r.lines[:3]))
                continue
            for start, grp in enumerate(gs):
                nexec += 1
                pulls += len(grp["res"]) + 1
                exp = sorted(expected(g, n, m[2], start))
                if grp["odd"]:
                    viol("%s:%d" % (m[1], start), "`%s` from node %d does not stop at the reachable set %r (cut off / error: %r, got %r)" % (
                        m[1], start, exp, grp["odd"], grp["res"]))
                    continue
                got = sorted(node_of(x) for x in grp["res"])
                if got != exp:
                    viol("%s:%d" % (m[1], start), "`%s` from node %d yields nodes %r, reachable set is %r" % (m[1], start, got, exp))
                if m[1] == "E+":
                    plus_impl = plus_impl or {}
                    plus_impl[start] = got
        elif m[0] == "stream":
            nexec += 1
            got = r.results()
            pulls += len(got) + 1
            exp = []
            for s in m[3]:
                exp += expected(g, n, m[2], s)
            odd = [l for l in r.lines if not l.startswith("r ")]
            if odd:
                viol("%s:stream%s" % (m[1], m[3]), "`%s` behind stream %r: cut off / error %r" % (m[1], m[3], odd))
            elif sorted(node_of(x) for x in got) != sorted(exp):
                viol("%s:stream%s" % (m[1], m[3]), "`%s` behind stream %r yields %r, per-input reachable sets give %r (clean slate per input)" % (
                    m[1], m[3], sorted(node_of(x) for x in got), sorted(exp)))
        elif m[0] in ("law-opt", "law-opt-ref"):
            opt[m[0]] = [sorted(zwmodel.wild(x) for x in grp["res"]) for grp in groups(r)]
            nexec += n
        elif m[0] == "law-plus-ref":
            nexec += n
            gs = groups(r)
            if plus_impl is not None and len(gs) == n:
                for start, grp in enumerate(gs):
                    ref = sorted(set(node_of(x) for x in grp["res"]))
                    if plus_impl.get(start) != ref and not grp["odd"]:
                        viol("law-plus:%d" % start, "`E+` from node %d yields %r but the distinct stacks of `E E*` are %r" % (start, plus_impl.get(start), ref))
        elif m[0] == "pair":
            gs = groups(r)
            if len(gs) != n * n:
                viol("pair:prefix", "prefix gave %d inputs" % len(gs))
                continue
            for grp in gs:
                nexec += 1
                pulls += len(grp["res"]) + 1
                start = node_of(grp["in"])
                exp = sorted(reach2(g, [start]))
                if grp["odd"]:
                    viol("pair:%s" % (start,), "two-slot closure from %r does not stop: %r" % (start, grp["odd"]))
                    continue
                got = sorted(node_of(x) for x in grp["res"])
                if got != exp:
                    viol("pair:%s" % (start,), "two-slot closure from %r yields %r, reachable %r" % (start, got, exp))
    if "law-opt" in opt and "law-opt-ref" in opt and opt["law-opt"] != opt["law-opt-ref"]:
        viol("law-opt", "`E?` yields %r but `(E,)` yields %r" % (opt["law-opt"], opt["law-opt-ref"]))
    return nexec, pulls, bad


# ---------------------------------------------------------------- grids of mixed-type two-slot stacks
GRID_POOL = ["1", "2", '"a"', '"b"', "[1]", "[]"]
GRID_CANON = {"1": "c:dec:1@0", "2": "c:dec:2@0", '"a"': "s:x61@0", '"b"': "s:x62@0", "[1]": "[c:dec:1@0]@0", "[]": "[]@0"}
GRID_BODIES = {
    "step-either": ("(|A B| (A %(next)s B, A B %(next)s))", lambda a, b, nx: [(nx(a), b), (a, nx(b))]),
    "rotate": ("(|A B| B A %(next)s)", lambda a, b, nx: [(b, nx(a))]),
    "both-or-swap": ("(|A B| (A %(next)s B %(next)s, B A))", lambda a, b, nx: [(nx(a), nx(b)), (b, a)]),
}


def grid_cases(kmax, pool):
    for k in range(2, kmax + 1):
        for ring in itertools.permutations(pool, k):
            if ring[0] != min(ring, key=pool.index):
                continue        # rotations of a ring are the same ring
            for bn in GRID_BODIES:
                yield ring, bn


def grid_query(ring, bn, form):
    nxt = "(|X| (" + ", ".join("(X == %s) %s" % (ring[i], ring[(i + 1) % len(ring)]) for i in range(len(ring))) + "))"
    return (form % (GRID_BODIES[bn][0] % {"next": nxt}))


def _grid_worker(d, chunk, extra):
    out = {"closures": 0, "exec": 0, "pulls": 0, "bad": [], "sizes": {}}
    for ring, bn in chunk:
        k = len(ring)
        nx = lambda v: ring[(ring.index(v) + 1) % k]
        fn = GRID_BODIES[bn][1]
        starts = [(a, b) for a in ring for b in ring]
        prefix = "(" + ", ".join(ring) + ") (" + ", ".join(ring) + ")"
        cmds = [drv.run_cmd(grid_query(ring, bn, f), p=prefix, lim=k * k + 2) for f in ("%s*", "%s+")]
        rs = d.batch(cmds)
        out["closures"] += 1
        for form, r in zip(("*", "+"), rs):
            key = "grid:%s|%s|%s" % (",".join(ring), bn, form)
            case = {"ring": list(ring), "body": bn, "kind": "grid" + form}
            if r.crash:
                out["bad"].append((key, "closure over the ring %s (%s)%s died: %s %s" % (list(ring), bn, form, r.crash[0], r.crash[1][-300:]), case))
                continue
            gs = groups(r)
            if len(gs) != len(starts):
                out["bad"].append((key, "ring %s (%s)%s: prefix gave %d start stacks, expected %d" % (list(ring), bn, form, len(gs), len(starts)), case))
                continue
            for grp in gs:
                out["exec"] += 1
                out["pulls"] += len(grp["res"]) + 1
                a, b = [x for x in ring if GRID_CANON[x] == grp["in"].split(" ")[0]][0], [x for x in ring if GRID_CANON[x] == grp["in"].split(" ")[1]][0]
                seen, work = ([(a, b)], [(a, b)]) if form == "*" else ([], [])
                if form == "+":
                    for y in fn(a, b, nx):
                        if y not in seen:
                            seen.append(y)
                            work.append(y)
                while work:
                    x = work.pop()
                    for y in fn(x[0], x[1], nx):
                        if y not in seen:
                            seen.append(y)
                            work.append(y)
                exp = sorted("%s %s" % (GRID_CANON[x], GRID_CANON[y]) for x, y in seen)
                got = sorted(zwmodel.wild(x) for x in grp["res"])
                out["sizes"][len(exp)] = out["sizes"].get(len(exp), 0) + 1
                if grp["odd"] or got != sorted(zwmodel.wild(x) for x in exp):
                    out["bad"].append((key, "closure `%s` from <%s %s>: yields %d stacks %r%s, the reachable stacks are the %d stacks %r, each once" % (
                        grid_query(ring, bn, "%s" + form), a, b, len(got), got[:6], " and does not stop (%r)" % grp["odd"] if grp["odd"] else "", len(exp), exp[:6]), case))
                    break
    out["bad"] = out["bad"][:6]
    return out


# ---------------------------------------------------------------- a value of every type riding below the node
PASSENGERS = ['7', '"s"', '[1, "a"]', '{1}', '1 (|A| {A})', '"x" (|A| {A A})', '[{1}]', '2 (|A| [{A}, 3])', '1 (|A| 2 (|B| {A B add}))']


def _passenger_worker(d, chunk, extra):
    """The N=2 graph closures with another value below the node: stacks that differ only in being copies of each other are one stack."""
    out = {"closures": 0, "exec": 0, "pulls": 0, "bad": []}
    for g in chunk:
        cmds, meta = [], []
        for pi, pv in enumerate(PASSENGERS):
            for start in range(2):
                for form, kind in (("%s*", "star"), ("%s+", "plus"), ("()*", "id"), ("(dup drop)*", "id"), ("(swap swap)+", "id")):
                    q = "%s %d %s" % (pv, start, form % body(g) if "%s" in form else form)
                    cmds.append(drv.run_cmd(q + " (|P N| N)", lim=6))
                    meta.append((pv, start, form, kind, q))
        rs = d.batch(cmds)
        out["closures"] += 1
        for (pv, start, form, kind, q), r in zip(meta, rs):
            case = {"passenger_graph": [list(a) for a in g], "kind": "passenger"}
            key = "passenger:%r|%s" % (g, q)
            if r.crash:
                out["bad"].append((key, "`%s` died: %s %s" % (q, r.crash[0], r.crash[1][-300:]), case))
                continue
            exp = sorted(reach(g, [start]) if kind == "star" else (reach(g, list(g[start])) if kind == "plus" else [start]))
            out["exec"] += 1
            out["pulls"] += len(r.results()) + 1
            odd = [l for l in r.lines if not l.startswith("r ")]
            got = sorted(node_of(x) for x in r.results()) if not odd else None
            if odd or got != exp:
                out["bad"].append((key, "`%s` (the node with the value `%s` below it): yields nodes %r%s, the distinct reachable stacks are %r" % (
                    q, pv, got if got is not None else [x for x in r.lines[:6]], " and does not stop" if "t" in odd else "", exp), case))
    out["bad"] = out["bad"][:6]
    return out


# ---------------------------------------------------------------- stacks that differ only in what a closure captured
def closure_state_cases():
    """(query, expected number of distinct stacks): the walked state lives in the captured values of a block on the stack."""
    step = "(|A B| (A 1 add ?(2 ?le) B, A B 1 add ?(2 ?le)))"
    out = []
    for wrap, unwrap in (("(|A B| {A B})", "(|F| F)"), ("(|A B| {B A})", "(|F| F swap)"), ("(|A B| 7 (|C| {A B C}))", "(|F| F drop)"), ("(|A B| {A} {B})", "(|F G| F G)")):
        for form, n in (("*", 9), ("+", 8)):
            out.append(("0 0 %s (%s %s %s)%s" % (wrap, unwrap, step, wrap, form), n if form == "*" else 8))
    # captured values of different types in the same slot
    out.append(('0 (drop (1, "a") (|X| {X}))*', 3))
    out.append(('0 (drop (1, "a", [1], 2) (|X| {X}))*', 5))
    out.append(('0 (drop (1, "a") (2, "b") (|X Y| {X Y}))+', 4))
    return out


def _closure_state_worker(d, chunk, extra):
    out = {"n": 0, "exec": 0, "pulls": 0, "bad": []}
    rs = d.batch([drv.run_cmd(q, lim=n + 3) for q, n in chunk])
    for (q, n), r in zip(chunk, rs):
        out["n"] += 1
        out["exec"] += 1
        out["pulls"] += len(r.results()) + 1
        odd = [l for l in r.lines if not l.startswith("r ")]
        if r.crash or odd or len(r.results()) != n:
            out["bad"].append(("cstate:%s" % q, "`%s` yields %d stacks%s, the reachable set has %d (stacks differ only in the values a block captured)%s" % (
                q, len(r.results()), " and does not stop" if "t" in odd else "", n, " - died: %s %s" % (r.crash[0], r.crash[1][-300:]) if r.crash else ""),
                {"cstate": q, "n": n, "kind": "cstate"}))
    return out


def _worker(d, task, extra):
    n, maxlen, k, m = task
    out = {"graphs": 0, "exec": 0, "pulls": 0, "bad": [], "sizes": {}, "sample": None}
    pending = None

    def account(g, meta, rs):
        ne, pu, bad = judge(g, n, meta, rs, STREAMS)
        out["graphs"] += 1
        out["exec"] += ne
        out["pulls"] += pu
        out["bad"].extend(bad[:2])
        sig = tuple(len(reach(g, [s])) for s in range(n))
        out["sizes"][sig] = out["sizes"].get(sig, 0) + 1
        if out["sample"] is None:
            out["sample"] = {"graph": [list(a) for a in g], "query": (FORMS["E+"][0] % body(g)), "reach_sizes": list(sig)}

    for g in itertools.islice(graphs(n, maxlen), k, None, m):
        cmds, meta = cmds_for(g, n, STREAMS)
        d.send(cmds)
        if pending is not None:
            account(pending[0], pending[1], d.recv(len(pending[1])))
        pending = (g, meta)
    if pending is not None:
        account(pending[0], pending[1], d.recv(len(pending[1])))
    return out


def replay(case):
    ctx = common.Ctx("C10", "quick")
    d = drv.Drv(ctx.bin("zwdrv"), "core")
    try:
        if "cstate" in case:
            return bool(_closure_state_worker(d, [(case["cstate"], case["n"])], None)["bad"])
        if "passenger_graph" in case:
            r = _passenger_worker(d, [tuple(tuple(a) for a in case["passenger_graph"])], None)
            return bool(r["bad"])
        if "ring" in case:
            r = _grid_worker(d, [(tuple(case["ring"]), case["body"])], None)
            return bool(r["bad"])
        g = tuple(tuple(a) for a in case["g"])
        cmds, meta = cmds_for(g, case["n"], STREAMS)
        _, _, bad = judge(g, case["n"], meta, d.batch(cmds), STREAMS)
        return bool(bad)
    finally:
        d.close()


def main(ctx):
    bins = ctx.build(["zwdrv"])
    # (nodes, max out-list length, engine build): the sanitized engine takes the quick families,
    # the thorough tier adds the larger ones on the plain (-O2, asserts and hook on) build
    parts = [(3, 2, "san"), (4, 1, "san")]
    if ctx.tier == "thorough":
        fast = ctx.build(["zwdrv"], "fast")["zwdrv"]
        parts += [(3, 3, "fast"), (4, 2, "fast")]
    sizes = {}
    for n, maxlen, variant in parts:
        total = len(adj_lists(n, maxlen)) ** n
        m = max(1, min(512, total // 60))
        binary = bins["zwdrv"] if variant == "san" else fast
        for r in common.pmap(ctx, _worker, [(n, maxlen, k, m) for k in range(m)], binary, "core", timeout=60):
            ctx.count("graphs", r["graphs"])
            ctx.count("graphs_n%d_len%d_%s" % (n, maxlen, variant), r["graphs"])
            ctx.count("executions", r["exec"])
            ctx.count("pulls", r["pulls"])
            for k, v in r["sizes"].items():
                sizes[k] = sizes.get(k, 0) + v
            if r["sample"]:
                ctx.sample(r["sample"])
            for key, what, case in r["bad"]:
                ctx.violation(key, what, case)
    kmax, pool = (5, GRID_POOL) if ctx.tier == "thorough" else (4, GRID_POOL[:5])
    gsizes = {}
    for r in common.pmap(ctx, _grid_worker, common.chunks(grid_cases(kmax, pool), 8), bins["zwdrv"], "core", timeout=60):
        ctx.count("grid_closures", r["closures"])
        ctx.count("executions", r["exec"])
        ctx.count("pulls", r["pulls"])
        for k, v in r["sizes"].items():
            gsizes[k] = gsizes.get(k, 0) + v
        for key, what, case in r["bad"]:
            ctx.violation(key, what, case)
    for r in common.pmap(ctx, _closure_state_worker, common.chunks(closure_state_cases(), 2), bins["zwdrv"], "core", timeout=60):
        ctx.count("closure_state_cases", r["n"])
        ctx.count("executions", r["exec"])
        ctx.count("pulls", r["pulls"])
        for key, what, case in r["bad"]:
            ctx.violation(key, what, case)
    for r in common.pmap(ctx, _passenger_worker, common.chunks(graphs(2, 2), 3), bins["zwdrv"], "core", timeout=60):
        ctx.count("passenger_graphs", r["closures"])
        ctx.count("executions", r["exec"])
        ctx.count("pulls", r["pulls"])
        for key, what, case in r["bad"]:
            ctx.violation(key, what, case)
    cov = {
        "states": ctx.counts.get("executions", 0),
        "transitions": ctx.counts.get("pulls", 0),
        "traces_validated_against_impl": ctx.counts.get("executions", 0),
        "evaluations": ctx.counts.get("executions", 0),
        "distinct_nontrivial": ctx.counts.get("graphs", 0),
        "distinct_outcomes": len(sizes),
        "rule": "state = (graph, closure form, start node or input stream) run on the engine until exhaustion or |reachable|+1 results; "
                "transition = one zw_result_next; distinct = distinct edge-list graph; distinct_outcomes = distinct vectors of reachable-set sizes",
        "bounds": {"graph_families(nodes,max_out_list_length)": parts, "forms": list(FORMS), "streams": [list(s) for s in STREAMS],
                   "two_slot_stacks": "N=3 graphs, all 9 start pairs",
                   "passengers": {"values_below_the_node": PASSENGERS, "graphs": "all N=2 graphs with out-lists <= 2", "forms": ["E*", "E+", "()*", "(dup drop)*", "(swap swap)+"]},
                   "mixed_type_grids": {"value_pool": pool, "ring_sizes": "2..%d" % kmax, "bodies": list(GRID_BODIES), "starts": "every pair of ring values",
                                        "forms": ["*", "+"], "reachable_set_sizes_seen": gsizes}},
    }
    return ctx.finish("model_checking", cov, [
        "graph reachability in Python is the reference; termination is decided only within the enumerated graphs "
        "(the engine must stop after |reachable| results; a watchdog expiry is re-run alone before it is reported)",
        "closure bodies with ALT/OR/let/format/closures are covered by C01's program family; DWARF graphs by C05",
    ], replay)
