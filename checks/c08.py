"""C08 - integer arithmetic is exact over [-2^63, 2^64-1] or reports an error.

Part A: every ordered pair of a boundary lattice, in both internal
representations of every value in [0, 2^63), x {add sub mul div mod lt le gt
ge eq ne} + unary minus + printing, on the real mpz_class (int_harness built
from /repo/libzwerg/int.cc), against Python's exact integers.
Part B: the same arithmetic through the parser and the engine: literals in
every radix prefix and sign, `A B op` and the comparison words, via zwdrv.
"""
import subprocess, multiprocessing, itertools, os, sys
import common, drv

LO, HI = -(1 << 63), (1 << 64) - 1
ARITH = ["add", "sub", "mul", "div", "mod"]
CMP = ["lt", "le", "gt", "ge", "eq", "ne"]


def lattice(tier):
    ks = range(0, 65) if tier == "thorough" else [0, 1, 2, 7, 8, 31, 32, 33, 62, 63, 64]
    vals = {0, 1, -1, 2, -2, 3, -3, 10, -10, LO, LO + 1, LO + 2, HI, HI - 1, HI - 2,
            (1 << 63) - 1, (1 << 63), (1 << 63) + 1, (1 << 63) + 2, (1 << 32) - 1, 1 << 32,
            3037000499, 3037000500, 4294967295, 4294967296, 6074001000, 0x5555555555555555,
            0xAAAAAAAAAAAAAAAA, -0x5555555555555555}
    for k in ks:
        for d in (-1, 0, 1):
            for s in (1, -1):
                vals.add(s * ((1 << k) + d))
    return sorted(v for v in vals if LO <= v <= HI)


def operands(vals):
    ops = []
    for v in vals:
        if v < 0:
            ops.append(("s", v))
        elif v < (1 << 63):
            ops.append(("s", v))
            ops.append(("u", v))
        else:
            ops.append(("u", v))
    return ops


def enc(o):
    return "%s%016x" % (o[0], o[1] & ((1 << 64) - 1))


def exact(op, a, b):
    """Exact result, or None when an error must be reported."""
    if op == "add":
        r = a + b
    elif op == "sub":
        r = a - b
    elif op == "mul":
        r = a * b
    elif op == "div":
        if b == 0:
            return None
        r = a // b
    elif op == "mod":
        if b == 0:
            return None
        r = a % b
    elif op == "neg":
        r = -a
    else:
        raise ValueError(op)
    return r if LO <= r <= HI else None


def cmpres(op, a, b):
    return {"lt": a < b, "le": a <= b, "gt": a > b, "ge": a >= b, "eq": a == b, "ne": a != b}[op]


def check_line(op, a, b, out):
    """Return None if OUT is right for OP on exact values A, B; else expected text."""
    if op in CMP:
        exp = "b%d" % cmpres(op, a, b)
        return None if out == exp else exp
    if op == "show":
        exp = "t%d" % a
        return None if out == exp else exp
    r = exact(op, a, b)
    if r is None:
        return None if out.startswith("E") else "an error (E...)"
    if out[:1] == "s":
        ok = LO <= int(out[1:]) < (1 << 63) and int(out[1:]) == r
    elif out[:1] == "u":
        ok = 0 <= int(out[1:]) <= HI and int(out[1:]) == r
    else:
        ok = False
    return None if ok else "value %d" % r


def _part_a_worker(args):
    harness, ops_a, ops_all = args
    cases = []
    for a in ops_a:
        cases.append(("neg", a, None))
        cases.append(("show", a, None))
        for b in ops_all:
            for op in ARITH + CMP:
                cases.append((op, a, b))
    inp = "".join("%s %s%s\n" % (op, enc(a), (" " + enc(b)) if b else "") for op, a, b in cases)
    env = dict(os.environ, ASAN_OPTIONS="detect_leaks=0", UBSAN_OPTIONS="halt_on_error=1:print_stacktrace=1")
    p = subprocess.run([harness], input=inp.encode(), stdout=subprocess.PIPE, stderr=subprocess.PIPE, env=env)
    outs = p.stdout.decode().splitlines()
    bad = []
    if p.returncode != 0 or len(outs) != len(cases):
        k = min(len(outs), len(cases) - 1)
        bad.append((cases[k], "harness died rc=%s: %s" % (p.returncode, p.stderr.decode(errors="replace")[-800:]), "no crash"))
        return {"n": len(outs), "bad": bad, "outcomes": {}}
    outcomes = {}
    for (op, a, b), out in zip(cases, outs):
        exp = check_line(op, a[1], b[1] if b else 0, out)
        kind = out[:1]
        outcomes[(op, kind)] = outcomes.get((op, kind), 0) + 1
        if exp is not None:
            bad.append(((op, a, b), out, exp))
    return {"n": len(cases), "bad": bad, "outcomes": outcomes}


def one_direct(harness, op, a, b):
    inp = "%s %s%s\n" % (op, enc(a), (" " + enc(b)) if b else "")
    env = dict(os.environ, ASAN_OPTIONS="detect_leaks=0")
    p = subprocess.run([harness], input=inp.encode(), stdout=subprocess.PIPE, stderr=subprocess.PIPE, env=env)
    out = p.stdout.decode().strip()
    if p.returncode != 0:
        return "crash"
    return check_line(op, a[1], b[1] if b else 0, out) is not None


# ---------------------------------------------------------------- part B
RADIX = {"dec": ("", "d"), "hex": ("0x", "x"), "oct": ("0o", "o"), "bin": ("0b", "b"), "oct0": ("0", "o"), "HEX": ("0X", "X")}
DOMOF = {"dec": "dec", "hex": "hex", "oct": "oct", "bin": "bin", "oct0": "oct", "HEX": "hex"}


def lit(v, radix):
    pre, f = RADIX[radix]
    if radix == "oct0" and v == 0:
        return "00"
    return ("-" if v < 0 else "") + pre + format(abs(v), f)


def sublattice(tier):
    vals = [0, 1, -1, 2, -2, 3, 7, -7, 255, -255, 256, (1 << 31) - 1, 1 << 31, -(1 << 31), (1 << 32) - 1, 1 << 32,
            (1 << 62), (1 << 63) - 1, 1 << 63, (1 << 63) + 1, HI - 1, HI, LO, LO + 1, -(1 << 62), 3037000500, -3037000500,
            0x5555555555555555]
    if tier == "thorough":
        vals += [(1 << k) + d for k in (8, 16, 33, 48, 61) for d in (-1, 0, 1)] + [-(1 << k) for k in (8, 16, 33, 48, 61)]
    return sorted(set(vals))


WORD_OF = {"lt": "?lt", "le": "?le", "gt": "?gt", "ge": "?ge", "eq": "?eq", "ne": "?ne"}


def expect_b(kind, op, a, ra, b, rb):
    """Expected observable for a part-B case."""
    if kind == "lit":
        return ("one", a, DOMOF[ra])
    if kind == "arith":
        r = exact(op, a, b)
        if r is None:
            return ("error",)
        da, db = DOMOF[ra], DOMOF[rb]
        if da == db:
            dom = da
        elif da == "dec":
            dom = db
        elif db == "dec":
            dom = da
        else:
            dom = None      # documentation silent on mixed non-decimal domains: value only
        return ("one", r, dom)
    if kind == "cmp":
        return ("holds",) if cmpres(op, a, b) else ("none",)


def judge_b(exp, resp):
    if resp.crash:
        return "driver crashed: %s %s" % (resp.crash[0], resp.crash[1][-400:])
    res = resp.results()
    hard = resp.first("e") or resp.first("qerr")
    errs = [l for l in resp.soft_errors() if l.startswith("Error")]
    if exp[0] == "error":
        if res:
            return "expected an error and no result, got %r" % res
        if not errs and hard is None:
            return "no result and no error message"
        return None
    if hard is not None:
        return "unexpected hard error %r" % drv.unhx(hard)
    if exp[0] == "one":
        if len(res) != 1:
            return "expected one result %d, got %r stderr=%r" % (exp[1], res, resp.stderr[:200])
        parts = res[0].split(" ")[-1].split(":")
        if parts[0] != "c" or int(parts[2].split("@")[0]) != exp[1]:
            return "expected value %d, got %s" % (exp[1], res[0])
        if exp[2] is not None and parts[1] != exp[2]:
            return "expected domain %s, got %s" % (exp[2], res[0])
        return None
    if exp[0] == "holds":
        return None if len(res) == 1 else "comparison should hold, got %r" % res
    if exp[0] == "none":
        return None if (len(res) == 0 and not errs) else "comparison should not hold, got %r %r" % (res, errs)


def query_b(kind, op, a, ra, b, rb):
    if kind == "lit":
        return lit(a, ra)
    if kind == "arith":
        return "%s %s %s" % (lit(a, ra), lit(b, rb), op)
    return "%s %s %s" % (lit(a, ra), lit(b, rb), WORD_OF[op])


def _part_b_worker(d, chunk, extra):
    cmds = [drv.run_cmd(query_b(*c)) for c in chunk]
    rs = d.batch(cmds)
    bad, outcomes = [], {}
    for c, r in zip(chunk, rs):
        exp = expect_b(*c)
        why = judge_b(exp, r)
        outcomes[exp[0]] = outcomes.get(exp[0], 0) + 1
        if why:
            bad.append((c, why))
    return {"n": len(chunk), "bad": bad, "outcomes": outcomes}


def cases_b(tier):
    vals = sublattice(tier)
    radixes = ["dec", "hex", "oct", "bin", "oct0", "HEX"]
    for v in vals:
        for r in radixes:
            yield ("lit", None, v, r, None, None)
    combos = [(x, y) for x in radixes[:4] for y in radixes[:4]]
    n = 0
    for a in vals:
        for b in vals:
            for op in ARITH + CMP:
                kind = "arith" if op in ARITH else "cmp"
                if tier == "thorough":
                    for ra, rb in combos:
                        yield (kind, op, a, ra, b, rb)
                else:
                    ra, rb = combos[n % len(combos)]
                    n += 1
                    yield (kind, op, a, ra, b, rb)


def outofrange_cases():
    out = []
    for mag in (1 << 64, (1 << 64) + 1, 1 << 65, 10 ** 30):
        for r in ("dec", "hex", "oct", "bin"):
            out.append(lit(mag, r))
            out.append(lit(-mag, r))
    for mag in ((1 << 63) + 1, (1 << 63) + 2, HI):
        for r in ("dec", "hex", "oct", "bin"):
            out.append(lit(-mag, r))
    return out


def replay(case):
    ctx = common.Ctx("C08", "quick")
    if case["part"] == "A":
        h = ctx.bin("int_harness")
        a = tuple(case["a"])
        b = tuple(case["b"]) if case["b"] else None
        return bool(one_direct(h, case["op"], a, b))
    d = drv.Drv(ctx.bin("zwdrv"), "core")
    try:
        if case["part"] == "B":
            c = tuple(case["c"])
            return judge_b(expect_b(*c), d.run(query_b(*c))) is not None
        if case["part"] == "range":
            r = d.run(case["q"])
            return not (r.has("qerr") and not r.results())
    finally:
        d.close()


def main(ctx):
    bins = ctx.build(["int_harness", "zwdrv"])
    vals = lattice(ctx.tier)
    ops = operands(vals)
    # ---- part A
    pool = multiprocessing.Pool(16)
    groups = [ops[i::48] for i in range(48)]
    total, outcomes = 0, {}
    for r in pool.imap_unordered(_part_a_worker, [(bins["int_harness"], g, ops) for g in groups if g]):
        total += r["n"]
        for k, v in r["outcomes"].items():
            outcomes[k] = outcomes.get(k, 0) + v
        for (op, a, b), out, exp in r["bad"]:
            key = "int:%s:%s%d:%s" % (op, a[0], a[1], ("%s%d" % b) if b else "-")
            ctx.violation(key, "mpz_class %s(%s%d, %s) gave %r, exact arithmetic demands %s" % (
                op, a[0], a[1], ("%s%d" % b) if b else "-", out, exp),
                {"part": "A", "op": op, "a": list(a), "b": list(b) if b else None})
    pool.close()
    pool.join()
    ctx.count("direct_evaluations", total)
    ctx.count("operands", len(ops))
    ctx.sample({"op": "div", "a": "s-9223372036854775808", "b": "u18446744073709551615", "expect": -1})
    ctx.sample({"op": "mul", "a": "u4294967296", "b": "s4294967296", "expect": "error (2^64)"})
    # ---- part B
    nb, outcomes_b = 0, {}
    for r in common.pmap(ctx, _part_b_worker, common.chunks(cases_b(ctx.tier), 400), bins["zwdrv"], "core"):
        nb += r["n"]
        for k, v in r["outcomes"].items():
            outcomes_b[k] = outcomes_b.get(k, 0) + v
        for c, why in r["bad"]:
            q = query_b(*c)
            ctx.violation("zw:" + q, "query `%s`: %s" % (q, why), {"part": "B", "c": list(c)})
    d = drv.Drv(bins["zwdrv"], "core")
    for q in outofrange_cases():
        r = d.run(q)
        nb += 1
        if not r.has("qerr") or r.results():
            ctx.violation("zw:" + q, "out-of-range literal `%s` was not rejected: %r" % (q, r.lines), {"part": "range", "q": q})
    d.close()
    ctx.count("driver_evaluations", nb)
    ctx.sample({"query": "-0x8000000000000000 0xffffffffffffffff div", "expect": "-1 in hex domain"})
    distinct = len(outcomes) + len(outcomes_b)
    cov = {
        "states": len(ops) * len(ops) + len(ops),
        "transitions": total + nb,
        "traces_validated_against_impl": total + nb,
        "evaluations": total + nb,
        "distinct_nontrivial": len(ops) * len(ops),
        "distinct_outcomes": {"direct(op,result kind)": {"%s/%s" % k: v for k, v in sorted(outcomes.items())}, "driver": outcomes_b},
        "rule": "state = ordered operand pair (value, internal representation) of the lattice; every pair is non-trivial "
                "(lattice holds only boundary values); transition = one operator application on the real code, each compared "
                "with Python exact integers",
        "bounds": {"lattice_values": len(vals), "operands_with_both_representations": len(ops),
                   "ops": ARITH + CMP + ["neg", "show"], "driver_values": len(sublattice(ctx.tier))},
    }
    return ctx.finish("model_checking", cov, [
        "Python big integers are the exact-arithmetic reference",
        "random 64-bit operands mentioned in the quantifier are not part of the verdict (bounded exhaustive lattice only)",
        "result domain is compared only where the documentation fixes it (same domain, or one operand decimal)",
    ], replay)
