"""C16 - address sets behave as mathematical sets of addresses.

Part A: explicit-state BFS on the real `coverage` class (cov_harness) over a
universe of N addresses placed at four bases; every state and every pair of
states compared with a bitmap.
Part B: the Zwerg words over address sets through the engine: all sets of a
small universe, all pairs, several ways of building the same set.
"""
import subprocess, os, multiprocessing
import common, drv

def bases(n):
    # the last universe ends at 2^64-2 (its supremum 2^64-1 is the largest constant)
    return [0x10, (1 << 32) - 4, (1 << 63) - 4, (1 << 64) - 1 - n]


def run_harness(args):
    harness, base, n = args
    env = dict(os.environ, ASAN_OPTIONS="detect_leaks=1", UBSAN_OPTIONS="halt_on_error=1:print_stacktrace=1")
    p = subprocess.run([harness, "%x" % base, str(n)], stdout=subprocess.PIPE, stderr=subprocess.PIPE, env=env)
    out = p.stdout.decode().splitlines()
    viols = [l[2:] for l in out if l.startswith("V ")]
    summ = [l for l in out if l.startswith("SUMMARY")]
    if p.returncode != 0 or not summ:
        viols.append("cov:%x:%d:harness:crash :: harness died rc=%s %s" % (base, n, p.returncode, p.stderr.decode(errors="replace")[-1500:]))
        return base, n, viols, {}
    d = dict(kv.split("=") for kv in summ[0].split()[1:])
    return base, n, viols, {k: int(v) for k, v in d.items()}


# ------------------------------------------------------------------ part B
def runs(bits, n):
    out, i = [], 0
    while i < n:
        if bits >> i & 1:
            j = i
            while j < n and bits >> j & 1:
                j += 1
            out.append((i, j))
            i = j
        else:
            i += 1
    return out


def expr_runs(bits, n, base):
    rs = runs(bits, n)
    if not rs:
        return "0 0 aset"
    e = "%d %d aset" % (base + rs[0][0], base + rs[0][1])
    for a, b in rs[1:]:
        e += " %d %d aset add" % (base + a, base + b)
    return e


def expr_elems(bits, n, base):
    # built one address at a time, highest first
    e = "0 0 aset"
    for i in reversed(range(n)):
        if bits >> i & 1:
            e += " %d add" % (base + i)
    return e


def expr_carve(bits, n, base):
    # full interval with holes poked
    e = "%d %d aset" % (base + n, base)    # operands in descending order on purpose
    for i in range(n):
        if not bits >> i & 1:
            e += " 0x%x sub" % (base + i)
    return e


def canon_aset(bits, n, base, pos=0):
    return "AS:" + ",".join("%x+%x" % (base + a, b - a) for a, b in runs(bits, n)) + "@%d" % pos


def fmt_aset(bits, n, base):
    rs = runs(bits, n)
    if not rs:
        return "[)"
    return ", ".join("[%s, %s)" % (hex(base + a), hex(base + b)) for a, b in rs)


def groups(resp):
    """Split a p=/q= response into [(input, [results])]."""
    out = []
    for l in resp.lines:
        if l.startswith("g "):
            out.append((l[2:], []))
        elif l.startswith("r "):
            out[-1][1].append(l[2:])
    return out


ADDR = None     # name of the address constant domain, discovered at run time


def _unary_worker(d, chunk, extra):
    n, base = extra["n"], extra["base"]
    allsets = list(range(1 << n))
    bad, count = [], 0
    for builder in chunk:
        bname, bfn = builder, {"runs": expr_runs, "elems": expr_elems, "carve": expr_carve}[builder]
        prefix = "(" + ", ".join("(" + bfn(m, n, base) + ")" for m in allsets) + ")"
        tests = {
            "": lambda m: [canon_aset(m, n, base)],
            "?empty": lambda m: [canon_aset(m, n, base)] if m == 0 else [],
            "!empty": lambda m: [canon_aset(m, n, base)] if m != 0 else [],
            "length": lambda m: ["c:dec:%d@0" % bin(m).count("1")],
            "low": lambda m: [] if m == 0 else ["c:%s:%d@0" % (extra["addr"], base + runs(m, n)[0][0])],
            "high": lambda m: [] if m == 0 else ["c:%s:%d@0" % (extra["addr"], base + runs(m, n)[-1][1])],
            "range": lambda m: [canon_aset(((1 << (b - a)) - 1) << a, n, base, i) for i, (a, b) in enumerate(runs(m, n))],
            "elem": lambda m: ["c:%s:%d@%d" % (extra["addr"], base + i, k) for k, i in enumerate(i for i in range(n) if m >> i & 1)],
            "relem": lambda m: ["c:%s:%d@%d" % (extra["addr"], base + i, k) for k, i in enumerate(i for i in reversed(range(n)) if m >> i & 1)],
            '"%s"': lambda m: ["s:x" + fmt_aset(m, n, base).encode().hex() + "@0"],
            "dup ?eq drop": lambda m: [canon_aset(m, n, base)],
            "dup !eq": lambda m: [],
        }
        for q, f in tests.items():
            r = d.run(q, p=prefix, i=None)
            if r.crash:
                bad.append(("%s/%s" % (bname, q), "crash: %s" % (r.crash,)))
                continue
            gs = groups(r)
            if len(gs) != len(allsets):
                bad.append(("%s/%s" % (bname, q), "prefix yielded %d stacks, expected %d: %r %r" % (len(gs), len(allsets), r.lines[:3], r.stderr[:300])))
                continue
            for m, (gin, res) in zip(allsets, gs):
                count += 1
                exp = f(m)
                if gin != canon_aset(m, n, base):
                    bad.append(("%s:%d:build" % (bname, m), "`%s` built %s, expected %s" % (bfn(m, n, base), gin, canon_aset(m, n, base))))
                elif res != exp:
                    bad.append(("%s:%d:%s" % (bname, m, q), "`%s %s` gave %r, expected %r" % (bfn(m, n, base), q, res, exp)))
            if r.stderr:
                bad.append(("%s/%s:stderr" % (bname, q), "diagnostics on well-formed input: %r" % r.stderr[:300]))
    return {"n": count, "bad": bad}


def _pair_worker(d, chunk, extra):
    n, base = extra["n"], extra["base"]
    allsets = list(range(1 << n))
    bad, count = [], 0
    bs = ", ".join("(" + expr_runs(m, n, base) + ")" for m in allsets)
    for a in chunk:
        # A is built in one of three ways depending on its value, B always from runs
        bfn = [expr_runs, expr_elems, expr_carve][a % 3]
        prefix = "(%s) (%s)" % (bfn(a, n, base), bs)
        ca = canon_aset(a, n, base)
        tests = {
            "add": lambda b: [canon_aset(a | b, n, base)],
            "sub": lambda b: [canon_aset(a & ~b, n, base)],
            "overlap": lambda b: [canon_aset(a & b, n, base)],
            "?contains": lambda b: [ca + " " + canon_aset(b, n, base)] if a & b == b else [],
            "!contains": lambda b: [ca + " " + canon_aset(b, n, base)] if a & b != b else [],
            "?overlaps": lambda b: [ca + " " + canon_aset(b, n, base)] if a & b else [],
            "!overlaps": lambda b: [ca + " " + canon_aset(b, n, base)] if not a & b else [],
            "?eq": lambda b: [ca + " " + canon_aset(b, n, base)] if a == b else [],
            "?ne": lambda b: [ca + " " + canon_aset(b, n, base)] if a != b else [],
            "(|A B| A B add == B A add)": lambda b: [""],
            "(|A B| A B sub B add == A B add)": lambda b: [""],
        }
        for q, f in tests.items():
            r = d.run(q, p=prefix)
            if r.crash:
                bad.append(("pair:%d/%s" % (a, q), "crash: %s" % (r.crash,)))
                continue
            gs = groups(r)
            if len(gs) != len(allsets):
                bad.append(("pair:%d/%s" % (a, q), "prefix yielded %d stacks: %r %r" % (len(gs), r.lines[:3], r.stderr[:300])))
                continue
            for b, (gin, res) in zip(allsets, gs):
                count += 1
                exp = f(b)
                if exp == [""]:
                    ok = len(res) == 1
                else:
                    ok = res == exp
                if not ok:
                    bad.append(("pair:%d:%d:%s" % (a, b, q), "A=`%s` B=`%s` `%s` gave %r, expected %r" % (
                        bfn(a, n, base), expr_runs(b, n, base), q, res, exp)))
            if r.stderr:
                bad.append(("pair:%d/%s:stderr" % (a, q), "diagnostics on well-formed input: %r" % r.stderr[:300]))
    return {"n": count, "bad": bad}


def interval_cases(d, base, n, addr):
    """`x y aset` for all ordered pairs of bounds, either order."""
    bad, cnt = [], 0
    pts = list(range(n + 1))
    cmds, meta = [], []
    for x in pts:
        for y in pts:
            for fx, fy in (("%d", "%d"), ("0x%x", "%d"), ("%d", "0x%x")):
                q = (fx + " " + fy + " aset") % (base + x, base + y)
                cmds.append(drv.run_cmd(q))
                meta.append((q, x, y))
    for (q, x, y), r in zip(meta, d.batch(cmds)):
        cnt += 1
        lo, hi = min(x, y), max(x, y)
        bits = ((1 << (hi - lo)) - 1) << lo
        exp = [canon_aset(bits, n, base)]
        if r.crash or r.results() != exp or r.stderr:
            bad.append(("aset:" + q, "`%s` gave %r %r, expected %r" % (q, r.results(), r.stderr[:200], exp)))
    return cnt, bad


BOUNDARY_ADDRS = [0, 1, 0x10, (1 << 31) - 1, 1 << 32, (1 << 63) - 1, 1 << 63, (1 << 63) + 0x11, (1 << 64) - 0x100, (1 << 64) - 1]


def boundary_pairs(d, addr):
    """`a b aset` for every ordered pair of boundary addresses: either order gives the range [min, max), whatever the distance."""
    cnt, bad = 0, []
    pairs = [(a, b) for a in BOUNDARY_ADDRS for b in BOUNDARY_ADDRS]
    rs = d.batch([drv.run_cmd("%#x %#x aset" % (a, b), lim=3) for a, b in pairs])
    for (a, b), r in zip(pairs, rs):
        cnt += 1
        lo, hi = min(a, b), max(a, b)
        exp = ["AS:%s@0" % ("%x+%x" % (lo, hi - lo) if hi != lo else "")]
        if r.crash or r.results() != exp or r.stderr or len(r.lines) != 1:
            bad.append(("asetpair:%x:%x" % (a, b), "`%#x %#x aset` gave %r %r, expected %r" % (a, b, r.lines[:2], r.stderr[:120], exp)))
    return cnt, bad


def replay(case):
    ctx = common.Ctx("C16", "quick")
    if case["part"] == "boundary":
        d = drv.Drv(ctx.bin("zwdrv"), "full")
        try:
            return bool(boundary_pairs(d, None)[1])
        finally:
            d.close()
    if case["part"] == "A":
        base, n, viols, _ = run_harness((ctx.bin("cov_harness"), case["base"], case["n"]))
        return any(v.split(" :: ")[0] == case["key"] for v in viols)
    d = drv.Drv(ctx.bin("zwdrv"), "full")
    try:
        extra = {"n": case["n"], "base": case["base"], "addr": case["addr"]}
        if case["part"] == "unary":
            r = _unary_worker(d, [case["builder"]], extra)
        elif case["part"] == "pair":
            r = _pair_worker(d, [case["a"]], extra)
        else:
            return bool(interval_cases(d, case["base"], case["n"], case["addr"])[1])
        return any(k == case["k"] for k, _ in r["bad"])
    finally:
        d.close()


def main(ctx):
    bins = ctx.build(["cov_harness", "zwdrv"])
    na = 10 if ctx.tier == "thorough" else 8
    nb = 7 if ctx.tier == "thorough" else 5
    # ---- part A
    pool = multiprocessing.Pool(4)
    states = transitions = pair_checks = queries = 0
    for base, n, viols, summ in pool.imap_unordered(run_harness, [(bins["cov_harness"], b, na) for b in bases(na)]):
        for v in viols:
            key, _, what = v.partition(" :: ")
            ctx.violation(key, "coverage class, universe base %#x: %s -- %s" % (base, key, what),
                          {"part": "A", "base": base, "n": n, "key": key})
        if summ:
            if summ["states"] != 1 << n and not viols:
                ctx.violation("cov:%x:%d:statecount" % (base, n), "BFS reached %d distinct representations, canonical form demands %d" % (summ["states"], 1 << n),
                              {"part": "A", "base": base, "n": n, "key": "cov:%x:%d:statecount" % (base, n)})
            states += summ["states"]
            transitions += summ["transitions"]
            pair_checks += summ["pair_checks"]
            queries += summ["queries"]
    pool.close()
    pool.join()
    ctx.count("harness_states", states)
    ctx.count("harness_transitions", transitions)
    ctx.count("harness_pair_checks", pair_checks)
    ctx.count("harness_queries", queries)
    ctx.sample({"universe": "0x10..0x17", "path": "a0.3;a4.2;r1.4", "expect_bitmap": "0b100001"})
    # ---- part B
    d = drv.Drv(bins["zwdrv"], "full")
    r = d.run("0 1 aset low")
    addr = r.results()[0].split(":")[1]
    nrun = 0
    for base in bases(nb):
        extra = {"n": nb, "base": base, "addr": addr}
        cnt, bad = interval_cases(d, base, nb, addr)
        nrun += cnt
        for k, why in bad:
            ctx.violation("zw:%x:%s" % (base, k), why, {"part": "interval", "base": base, "n": nb, "addr": addr})
    cnt, bad = boundary_pairs(d, addr)
    nrun += cnt
    for k, why in bad:
        ctx.violation("zw:" + k, why, {"part": "boundary"})
    d.close()
    for base in bases(nb):
        extra = {"n": nb, "base": base, "addr": addr}
        for r in common.pmap(ctx, _unary_worker, [["runs"], ["elems"], ["carve"]], bins["zwdrv"], "full", extra=extra, timeout=120):
            nrun += r["n"]
            for k, why in r["bad"]:
                ctx.violation("zw:%x:%s" % (base, k), why, {"part": "unary", "builder": k.split(":")[0].split("/")[0], "k": k, "base": base, "n": nb, "addr": addr})
        for r in common.pmap(ctx, _pair_worker, common.chunks(range(1 << nb), 2), bins["zwdrv"], "full", extra=extra, timeout=120):
            nrun += r["n"]
            for k, why in r["bad"]:
                ctx.violation("zw:%x:%s" % (base, k), why, {"part": "pair", "a": int(k.split(":")[1].split("/")[0]), "k": k, "base": base, "n": nb, "addr": addr})
    ctx.count("driver_word_applications", nrun)
    ctx.sample({"query": "(0x10 0x12 aset 0x14 0x15 aset add) (0x11 0x15 aset) overlap", "expect": "AS:11+1,14+1"})
    cov = {
        "states": states,
        "transitions": transitions + pair_checks,
        "traces_validated_against_impl": transitions + pair_checks + queries + nrun,
        "evaluations": transitions + pair_checks + queries + nrun,
        "distinct_nontrivial": states,
        "rule": "state = distinct representation of the real coverage object reached by BFS with add/remove of every interval of the universe "
                "(must equal 2^N per universe when the canonical-form invariant holds); every state and every ordered pair of states is compared with a bitmap",
        "bounds": {"universe_size_harness": na, "universe_size_engine": nb, "bases": ["%#x" % b for b in bases(na)],
                   "ops_per_state": "add/remove x all intervals incl. zero length", "aset_construction": "every ordered pair of %d boundary addresses (0 .. 2^64-1)" % len(BOUNDARY_ADDRS)},
    }
    return ctx.finish("model_checking", cov, [
        "a Python/C++ bitmap over the universe is the reference",
        "zero-length is_covered/is_overlap queries and find_holes are not reachable from any Zwerg word and are not judged",
        "random long operation sequences of the quantifier are replaced by BFS to the fixpoint (all states reached)",
    ], replay)
