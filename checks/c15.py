"""C15 - notation does not change meaning: sugar, layout and the simplifier are transparent.

Every program of the C01 and C03 corpora (up to a size / depth bound) is
rewritten by every applicable documented equivalence at every applicable
position, and compiled with and without tree::simplify; both sides are run on
the engine and must yield identical results (ordered, or as multisets where
the rewrite changes the order of alternatives) or the same error class.
"""
import os, ast as _ast, itertools, re
import common, drv, zwmodel, zwgen
import c03
from zwgen import I, W, cat

LAYOUTS = [" ", "\n", " \t\n ", " /* c */ ", " // c (x\n", " # c \"\n", "\n/* a\n b */\n"]


def esc_variants(b):
    """Alternative spellings of the byte string b as a literal (without format directives)."""
    out = []
    if b:
        out.append('"' + "".join("\\x%02x" % c for c in b) + '"')
        out.append('"' + "".join("\\%03o" % c for c in b) + '"')
        for i in range(1, len(b)):
            out.append(zwmodel.lit_str(b[:i]) + "\\ " + zwmodel.lit_str(b[i:]))
            out.append(zwmodel.lit_str(b[:i]) + "\\\n\t" + zwmodel.lit_str(b[i:]))
        if not any(c in b for c in b'"\\%') and all(32 <= c < 127 for c in b):
            out.append('r"' + b.decode() + '"')
            out.append('"' + b[:1].decode() + '"\\ r"' + b[1:].decode() + '"')
    else:
        out.append('""\\ ""')
        out.append('r""')
    return out


DIRS = {"s": cat(), "d": W("value"), "x": cat(W("value"), W("hex")), "o": cat(W("value"), W("oct")), "b": cat(W("value"), W("bin"))}


def variants(t):
    """Yield (rewrite name, mode, query text, nosimp) ; mode in 'ordered' | 'multiset'."""
    base = zwmodel.render(t)
    toks = zwmodel.render_tokens(t)
    yield "nosimplify", "ordered", base, True
    for k, sep in enumerate(LAYOUTS):
        yield "layout-all-%d" % k, "ordered", sep.join(toks) + (sep if k % 2 else ""), False
    for i in range(len(toks) + 1):
        sep = LAYOUTS[2 + i % (len(LAYOUTS) - 2)]
        txt = " ".join(toks[:i]) + sep + " ".join(toks[i:])
        yield "layout-at-%d" % i, "ordered", txt, False
    for pp, n in zwmodel.positions(t):
        kind = n[0]
        # redundant parentheses around any sub-program
        if kind != "let" or True:
            yield "parens@%r" % (pp,), "ordered", zwmodel.render(zwmodel.replace_at(t, pp, ("par", [], n))), False
        if kind == "cat":
            # the empty expression `()` does nothing: one or two of them in any gap of a statement list
            for i in range(len(n[1]) + 1):
                for k in (1, 2):
                    rew = ("cat", n[1][:i] + [NOP] * k + n[1][i:])
                    yield "nop%d.%d@%r" % (k, i, pp), "ordered", zwmodel.render(zwmodel.replace_at(t, pp, rew)), False
                    if k == 2:
                        yield "nop%d.%d-nosimp@%r" % (k, i, pp), "ordered", zwmodel.render(zwmodel.replace_at(t, pp, rew)), True
        if kind == "opt":
            yield "opt@%r" % (pp,), "multiset", zwmodel.render(zwmodel.replace_at(t, pp, ("alt", [n[1], cat()]))), False
        if kind == "if":
            alt = ("alt", [cat(("sub", True, [], n[1]), ("par", [], n[2])), cat(("sub", False, [], n[1]), ("par", [], n[3]))])
            yield "if@%r" % (pp,), "multiset", zwmodel.render(zwmodel.replace_at(t, pp, alt)), False
        if kind == "sub" and not n[2]:
            op = "!=" if n[1] else "=="
            # E must leave a value to capture: the corpora's bodies always do (balanced, non-empty stacks)
            rew = ("infix", op, ("cap", [], n[3]), ("elist",))
            yield "sub@%r" % (pp,), "ordered", zwmodel.render(zwmodel.replace_at(t, pp, rew)), False
        if kind == "infix":
            w = zwmodel.INFIX_WORD[n[1]]
            rew = ("sub", True, [], cat(("let", ["T1"], n[2]), ("let", ["T2"], n[3]), ("rd", "T1"), ("rd", "T2"), W(w)))
            yield "infix@%r" % (pp,), "ordered", zwmodel.render(zwmodel.replace_at(t, pp, rew)), False
        if kind == "str":
            for j, txt in enumerate(esc_variants(n[1])):
                yield "str%d@%r" % (j, pp), "ordered", zwmodel.render(zwmodel.replace_at(t, pp, ("raw", txt, n))), False
        if kind == "fmt":
            parts = n[1]
            for i, p in enumerate(parts):
                if isinstance(p, bytes):
                    for j, txt in enumerate(esc_variants(p)[:2]):
                        np = list(parts)
                        # re-render the whole literal with this part spelled differently
                        lit = '"'
                        for q in np[:i]:
                            lit += zwmodel.render(("fmt", [q]))[1:-1]
                        lit += txt[1:-1]
                        for q in np[i + 1:]:
                            lit += zwmodel.render(("fmt", [q]))[1:-1]
                        lit += '"'
                        yield "fmtlit%d.%d@%r" % (i, j, pp), "ordered", zwmodel.render(zwmodel.replace_at(t, pp, ("raw", lit, n))), False
                elif p[0] == "dir":
                    np = list(parts)
                    np[i] = ("splice", DIRS[p[1]])
                    yield "dir%d@%r" % (i, pp), "ordered", zwmodel.render(zwmodel.replace_at(t, pp, ("fmt", np))), False
                elif p[0] == "splice" and zwmodel.render(p[1]).strip() == "":
                    np = list(parts)
                    np[i] = ("dir", "s")
                    yield "undir%d@%r" % (i, pp), "ordered", zwmodel.render(zwmodel.replace_at(t, pp, ("fmt", np))), False


NOP = ("par", [], ("cat", []))

# pieces for the simplifier family: each maps an int on TOS to ints on TOS and is a trigger (or a non-trigger neighbour)
# for one of the simplifier's rewrites: NOP dropping, CAT-in-CAT and ALT-in-ALT promotion, only-child promotion,
# format-without-splices to string
PIECES = ["()", "(())", "(() ())", "1 add", "(1 add)", "((2 mul) ())", "(1 add, 2 mul)", "((1 add, 2 mul), 3 mul)", "(,)", "((),)",
          "(1 add,)", "\"ab\" length add", "\"\" length add", "\"%s\" length", "(\"a\"\\ \"b\") length add", "[()] length add"]
SHAPE_CTX = ["%s", "[%s] length", "(%s, 7)", "?(%s) 1 add", "(%s || 9)", "(%s)*", "{%s} apply", "if (%s) then 1 else 2"]


def shape_cases(maxlen, ctxlen):
    for n in range(0, maxlen + 1):
        for seq in itertools.product(PIECES, repeat=n):
            body = " ".join(seq)
            yield body
            if n <= ctxlen:
                for c in SHAPE_CTX[1:]:
                    yield c % body


def _shape_worker(d, chunk, extra):
    out = {"n": 0, "bad": [], "outcomes": {}}
    cmds = []
    for q in chunk:
        cmds.append(drv.run_cmd(q, p="(0, 1, 2)", lim=300))
        cmds.append(drv.run_cmd(q, p="(0, 1, 2)", nosimp=True, lim=300))
    rs = d.batch(cmds)
    for i, q in enumerate(chunk):
        a, b = rs[2 * i], rs[2 * i + 1]
        out["n"] += 1
        if a.crash or b.crash:
            cr = a.crash or b.crash
            out["bad"].append(("shape:%s|crash" % q, "`%s`: driver died: %s %s" % (q, cr[0], cr[1][-400:]), {"shape": q}))
            continue
        oc = "results" if a.results() else ("other" if a.lines else "empty")
        out["outcomes"][oc] = out["outcomes"].get(oc, 0) + 1
        if a.lines != b.lines or a.stderr != b.stderr:
            out["bad"].append(("shape:%s" % q, "`%s` yields %r with the simplifier and %r without it" % (q, a.lines[:10], b.lines[:10]), {"shape": q}))
    out["bad"] = out["bad"][:12]
    return out


def comment_cases(maxlen, pairlen):
    """(text, text without the comments): every comment body up to maxlen characters in each of the three styles between
    two tokens, and every pair of block comments with bodies up to pairlen in one program (also before a string that
    contains a comment terminator)."""
    blk = ["*", "/", "x", " ", '"', "\n"]
    lin = ["*", "/", "#", "x", '"', " "]

    def bodies(al, n, bad=()):
        for k in range(n + 1):
            for t in itertools.product(al, repeat=k):
                b = "".join(t)
                if not any(x in b for x in bad):
                    yield b

    for b in bodies(blk, maxlen, ("*/",)):
        if b.endswith("*") and False:
            continue
        c = "/*" + b + "*/"
        if "*/" in ("/*" + b)[2:] or ("/*" + b).endswith("*") and False:
            pass
        yield "1 %s 2" % c, "1 2"
        yield "1%s2" % c, "1 2"
    for b in bodies(lin, maxlen):
        yield "1 //%s\n 2" % b, "1 2"
        yield "1 #%s\n 2" % b, "1 2"
    for b1 in bodies(blk, pairlen, ("*/",)):
        for b2 in bodies(blk, pairlen, ("*/",)):
            yield "[1, /*%s*/ 2, /*%s*/ 3]" % (b1, b2), "[1, 2, 3]"
        yield '1 /*%s*/ "b*/c" 2' % b1, '1 "b*/c" 2'
        yield '1 /*%s*/ 2 //*/\n 3' % b1, "1 2 3"


def _comment_worker(d, chunk, extra):
    out = {"n": 0, "bad": []}
    bases = sorted({b for _, b in chunk})
    rb = dict(zip(bases, d.batch([drv.run_cmd(b, lim=20) for b in bases])))
    rs = d.batch([drv.run_cmd(t, lim=20) for t, _ in chunk])
    for (t, b), r in zip(chunk, rs):
        out["n"] += 1
        if r.crash or r.lines != rb[b].lines:
            out["bad"].append(("comment:%s" % t.encode().hex(), "%r yields %r, but %r (the same program without the comments) yields %r%s" % (
                t, r.lines[:4] if not r.first("qerr") else drv.unhx(r.first("qerr")), b, rb[b].lines[:4], " (%s)" % (r.crash,) if r.crash else ""),
                {"comment": t, "base": b}))
    out["bad"] = out["bad"][:12]
    return out


# ---------------------------------------------------------------- directives on values of every type (DWARF vocabulary)
DW_SOURCES = ["entry (pos == 1)", "entry attribute ?AT_decl_line", "entry attribute ?AT_byte_size", "entry attribute ?AT_name", "entry attribute ?AT_type",
              "entry attribute ?AT_encoding", "entry ?AT_decl_line @AT_decl_line", "entry @AT_name", "symbol", "symbol label", "symbol address", "symbol size",
              "entry ?(@AT_location) @AT_location", "entry ?(@AT_location) @AT_location elem", "entry label", "entry offset", "entry attribute form",
              "entry abbrev", "unit", "entry address", "DW_TAG_variable", "(1, 0x10, -1)", '"str"', "[1]", "true"]
DW_EXPANSION = {"s": "", "d": "value", "x": "value hex", "o": "value oct", "b": "value bin"}


def _dwdir_worker(d, chunk, extra):
    """`V "%d"` vs `V "%( value %)"` etc. for value sources V of every type: results and diagnostics must agree."""
    out = {"n": 0, "bad": []}
    for f in extra["files"]:
        cmds = []
        for v, dch in chunk:
            cmds.append(drv.run_cmd('%s "<%%%s>"' % (v, dch), i="d1", lim=60))
            cmds.append(drv.run_cmd('%s "<%%( %s %%)>"' % (v, DW_EXPANSION[dch]), i="d1", lim=60))
        rs = d.batch(["open id=d1 path=" + drv.hx(f)] + cmds + ["close id=d1"])[1:-1]
        for k, (v, dch) in enumerate(chunk):
            a, b = rs[2 * k], rs[2 * k + 1]
            out["n"] += 1
            if a.crash or b.crash:
                cr = a.crash or b.crash
                out["bad"].append(("dwdir:%s|%s|%s" % (os.path.basename(f), v, dch), "`%s \"%%%s\"` on %s died: %s %s" % (v, dch, f, cr[0], cr[1][-300:]), {"dwdir": [v, dch], "file": f}))
                d.batch(["open id=d1 path=" + drv.hx(f)])
                break
            ea = sorted(set(l.split("`")[0][:40] for l in a.stderr.decode("latin-1").splitlines()))
            eb = sorted(set(l.split("`")[0][:40] for l in b.stderr.decode("latin-1").splitlines()))
            if a.lines != b.lines or bool(ea) != bool(eb):
                out["bad"].append(("dwdir:%s|%s|%s" % (os.path.basename(f), v, dch),
                                   "on %s, `%s \"<%%%s>\"` yields %r%s but its expansion `%s \"<%%( %s %%)>\"` yields %r%s" % (
                                       f, v, dch, a.lines[:3], " with diagnostics" if ea else "", v, DW_EXPANSION[dch], b.lines[:3], " with diagnostics" if eb else ""),
                                   {"dwdir": [v, dch], "file": f}))
    out["bad"] = out["bad"][:12]
    return out


def extra_corpus():
    """Programs that exercise strings, escapes and directives (the Z_3 corpus has few literals)."""
    vals = [I(0), I(255, "hex"), I(-8, "oct"), I(5, "bin"), ("w", "true"), ("str", b"a\"b"), ("str", b"x\\y%z"), ("str", b"\x00\x01\xff"),
            ("str", b""), ("str", b"tab\tnl\n"), ("cap", [], ("alt", [I(1), ("str", b"q")]))]
    out = []
    for v in vals:
        for d in "sdxob":
            out.append(("dir-%s" % d, cat(v, ("fmt", [b"<", ("dir", d), b">"]))))
        out.append(("lit", cat(v, ("str", b"lit\"eral\\ %"), W("add") if v[0] == "str" else cat())))
        out.append(("two", cat(v, v, ("fmt", [b"{", ("dir", "s"), b"|", ("splice", cat()), b"}"]))))
        out.append(("fmtfmt", cat(v, ("fmt", [b"a", ("splice", ("fmt", [b"(", ("dir", "s"), b")"])), b"b"]))))
    for a, b in itertools.product([I(1), I(2), ("alt", [I(1), I(3)]), ("str", b"ab")], repeat=2):
        for op in zwmodel.INFIX_WORD:
            out.append(("infix" + op, cat(I(7), ("infix", op, a, b))))
    out.append(("optswap", cat(I(1), I(2), ("opt", W("swap")), W("?gt"), W("drop"))))
    out.append(("ifelse", cat(("alt", [I(0), I(1), I(2)]), ("if", ("sub", True, [], cat(I(1), W("?eq"))), ("str", b"one"), ("alt", [("str", b"x"), ("str", b"y")])))))
    return out


NAMED = {"a": 7, "b": 8, "e": 27, "t": 9, "n": 10, "v": 11, "f": 12, "r": 13, '"': 34, "\\": 92}


def escape_cases():
    """(query text as bytes, expected bytes of the one string it yields): every spelling of every byte, in
    every following context that could change how the escape is delimited."""
    out = []
    suffixes = [b"", b"9", b"0", b"7", b"a", b"x", b" ", b"\\\\", b'\\"']
    sufval = {b"": b"", b"9": b"9", b"0": b"0", b"7": b"7", b"a": b"a", b"x": b"x", b" ": b" ", b"\\\\": b"\\", b'\\"': b'"'}
    for b in range(256):
        spell = []
        o = "%o" % b
        for width in (1, 2, 3):
            t = o.rjust(width, "0")
            if len(o) <= width and t[0] in "0123":
                spell.append(("oct%d" % width, ("\\" + t).encode()))
        spell.append(("hex", b"\\x%02x" % b))
        spell.append(("HEX", b"\\x%02X" % b))
        for k, v in NAMED.items():
            if v == b:
                spell.append(("named", b"\\" + k.encode()))
        if b not in (34, 92, 37):
            spell.append(("literal", bytes([b])))
        if b == 37:
            spell.append(("percent", b"%%"))
        for kind, sp in spell:
            for suf in suffixes:
                # an octal escape shorter than three digits swallows following octal digits: that is a different literal
                if kind in ("oct1", "oct2") and suf[:1] in (b"0", b"7"):
                    continue
                out.append((b'"' + sp + suf + b'"', bytes([b]) + sufval[suf]))
                out.append((b'"p' + sp + suf + b'q"', b"p" + bytes([b]) + sufval[suf] + b"q"))
    # escaped newline is ignored, a literal newline stands for itself, raw strings keep escapes
    out.append((b'"foo\\\nbar"', b"foobar"))
    out.append((b'"foo\nbar"', b"foo\nbar"))
    out.append((b'r"a\\x41\\n\\0"', b"a\\x41\\n\\0"))
    out.append((b'r"a\\"b"', b'a\\"b'))
    out.append((b'"a"\\ r"\\t"\\ "\\t"', b"a\\t\t"))
    return out


def _escape_worker(d, chunk, extra):
    out = {"n": 0, "bad": []}
    rs = d.batch([drv.run_cmd(t, lim=3) for t, _ in chunk])
    for (t, exp), r in zip(chunk, rs):
        out["n"] += 1
        got = r.results()
        want = ["s:x%s@0" % exp.hex()]
        if r.crash or got != want:
            out["bad"].append(("escape:" + t.hex(), "string literal %r denotes bytes %r per the documentation, engine yields %r %r" % (t, exp, got, r.lines[:1] if not got else ""),
                               {"escape": t.hex(), "expect": exp.hex()}))
    out["bad"] = out["bad"][:10]
    return out


def classify_err(r):
    q = r.first("qerr")
    if q is not None:
        m = drv.unhx(q).decode("latin-1")
        return "qerr:" + re.sub(r"`[^']*'", "`..'", m)[:50]
    e = r.first("e")
    if e is not None:
        return "err:" + drv.unhx(e).decode("latin-1")[:50]
    return None


def observe(r):
    if r.crash:
        return ("crash", r.crash[0], r.crash[1][-400:])
    ce = classify_err(r)
    groups, cur = [], None
    for l in r.lines:
        if l.startswith("g "):
            cur = []
            groups.append(cur)
        elif l.startswith("r "):
            if cur is None:
                cur = []
                groups.append(cur)
            cur.append(l[2:])
    soft = bool([x for x in r.soft_errors() if x.startswith("Error")])
    return ("ok", ce, groups, soft)


def judge(name, t, prefix, base_r, vlist, rs):
    bad = []
    q = zwmodel.render(t)
    b = observe(base_r)
    if b[0] == "crash":
        return [("prog:%s|basecrash" % q, "`%s` died: %s %s" % (q, b[1], b[2]), {"name": name, "ast": repr(t), "prefix": prefix, "rw": "base"})], 0
    n = 0
    for (rw, mode, txt, nosimp), r in zip(vlist, rs):
        n += 1
        o = observe(r)
        same = True
        if rw.startswith("sub@") and o[0] == "ok" and o[1] == "err:stack overflow" and b[1] is None:
            continue        # E leaves no value to capture here: the documented equivalence does not apply
        if o[0] == "crash":
            same = False
        elif o[1] != b[1]:
            same = False
        elif mode == "ordered":
            same = o[2] == b[2]
        else:
            same = len(o[2]) == len(b[2]) and all(sorted(x) == sorted(y) for x, y in zip(o[2], b[2]))
        if same and o[0] == "ok" and mode == "ordered" and o[3] != b[3]:
            same = False
        if not same:
            bad.append(("prog:%s|%s" % (q, rw), "`%s` and its rewrite (%s%s) `%s` differ: %r vs %r" % (
                q, rw, ", simplifier off" if nosimp else "", txt, b[1:], o[1:]), {"name": name, "ast": repr(t), "prefix": prefix, "rw": rw}))
    return bad, n


def _worker(d, task, extra):
    zwmodel.set_type_codes(extra["codes"])
    kind, k, m = task[0], task[-2], task[-1]
    if kind == "size":
        tab = zwgen.by_size(task[1])
        progs = [p for s in sorted(tab) for p in tab[s]][k::m]
        prefix = "(0, 1, 2)"
    elif kind == "binder":
        progs = list(itertools.islice(c03.programs(task[1]), k, None, m))
        prefix = None
    else:
        progs = extra_corpus()[k::m]
        prefix = None
    out = {"programs": 0, "rewrites": 0, "bad": [], "kinds": {}}
    for name, t in progs:
        vl = list(variants(t))
        cmds = [drv.run_cmd(zwmodel.render(t), p=prefix, lim=400)] + [drv.run_cmd(txt, p=prefix, nosimp=ns, lim=400) for _, _, txt, ns in vl]
        rs = d.batch(cmds)
        bad, n = judge(name, t, prefix, rs[0], vl, rs[1:])
        out["programs"] += 1
        out["rewrites"] += n
        out["bad"] += bad[:3]
        for rw, _, _, _ in vl:
            kk = re.sub(r"[@\d].*", "", rw)
            out["kinds"][kk] = out["kinds"].get(kk, 0) + 1
    out["bad"] = out["bad"][:12]
    return out


def replay(case):
    ctx = common.Ctx("C15", "quick")
    b = ctx.bin("zwdrv")
    if "dwdir" in case:
        d = drv.Drv(b, "full")
        try:
            return bool(_dwdir_worker(d, [tuple(case["dwdir"])], {"files": [case["file"]]})["bad"])
        finally:
            d.close()
    if "comment" in case:
        d = drv.Drv(b, "core")
        try:
            return bool(_comment_worker(d, [(case["comment"], case["base"])], None)["bad"])
        finally:
            d.close()
    if "shape" in case:
        d = drv.Drv(b, "core")
        try:
            return bool(_shape_worker(d, [case["shape"]], None)["bad"])
        finally:
            d.close()
    if "escape" in case:
        d = drv.Drv(b, "core")
        try:
            return bool(_escape_worker(d, [(bytes.fromhex(case["escape"]), bytes.fromhex(case["expect"]))], None)["bad"])
        finally:
            d.close()
    codes, _ = c03.setup_info(b)
    zwmodel.set_type_codes(codes)
    d = drv.Drv(b, "core")
    try:
        t = _ast.literal_eval(case["ast"])
        vl = [v for v in variants(t) if v[0] == case["rw"]] or list(variants(t))
        prefix = case["prefix"]
        cmds = [drv.run_cmd(zwmodel.render(t), p=prefix, lim=400)] + [drv.run_cmd(txt, p=prefix, nosimp=ns, lim=400) for _, _, txt, ns in vl]
        rs = d.batch(cmds)
        bad, _ = judge(case["name"], t, prefix, rs[0], vl, rs[1:])
        return bool(bad)
    finally:
        d.close()


def main(ctx):
    bins = ctx.build(["zwdrv"])
    codes, _ = c03.setup_info(bins["zwdrv"])
    thorough = ctx.tier == "thorough"
    tasks = [("extra", k, 8) for k in range(8)]
    tasks += [("size", 3, k, 64) for k in range(64)]
    tasks += [("binder", 1, k, 32) for k in range(32)]
    parts = [(bins["zwdrv"], tasks)]
    if thorough:
        fast = ctx.build(["zwdrv"], "fast")["zwdrv"]
        parts.append((fast, [("size", 4, k, 512) for k in range(512)] + [("binder", 2, k, 1024) for k in range(0, 1024, 4)]))
    kinds = {}
    for binary, tl in parts:
        for r in common.pmap(ctx, _worker, tl, binary, "core", extra={"codes": codes}, timeout=90):
            ctx.count("programs", r["programs"])
            ctx.count("rewrites_executed", r["rewrites"])
            for k, v in r["kinds"].items():
                kinds[k] = kinds.get(k, 0) + v
            for key, what, case in r["bad"]:
                ctx.violation(key, what, case)
    for r in common.pmap(ctx, _escape_worker, common.chunks(escape_cases(), 300), bins["zwdrv"], "core", timeout=60):
        ctx.count("escape_spellings", r["n"])
        kinds["escape-spelling"] = kinds.get("escape-spelling", 0) + r["n"]
        for key, what, case in r["bad"]:
            ctx.violation(key, what, case)
    dfiles = [f for f in (["/repo/tests/typedef.o", "/repo/tests/bitcount.o"] + (["/repo/tests/nontrivial-types.o", "/repo/tests/dwz-partial"] if thorough else []))
              if os.path.exists(f)]
    dcases = [(v, dch) for v in DW_SOURCES for dch in "sdxob"]
    for r in common.pmap(ctx, _dwdir_worker, common.chunks(dcases, 8), bins["zwdrv"], "full", extra={"files": dfiles}, timeout=120):
        ctx.count("directive_on_dwarf_values", r["n"])
        kinds["directive-dwarf"] = kinds.get("directive-dwarf", 0) + r["n"]
        for key, what, case in r["bad"]:
            ctx.violation(key, what, case)
    cbounds = (4, 2) if thorough else (3, 2)
    for r in common.pmap(ctx, _comment_worker, common.chunks(comment_cases(*cbounds), 300), bins["zwdrv"], "core", timeout=60):
        ctx.count("comment_programs", r["n"])
        kinds["comment-body"] = kinds.get("comment-body", 0) + r["n"]
        for key, what, case in r["bad"]:
            ctx.violation(key, what, case)
    shape_bounds = (4, 2) if thorough else (3, 2)
    for r in common.pmap(ctx, _shape_worker, common.chunks(shape_cases(*shape_bounds), 400), fast if thorough else bins["zwdrv"], "core", timeout=90):
        ctx.count("simplifier_shapes", r["n"])
        kinds["simplifier-shape"] = kinds.get("simplifier-shape", 0) + r["n"]
        for k, v in r["outcomes"].items():
            ctx.count("simplifier_shapes_with_" + k, v)
        for key, what, case in r["bad"]:
            ctx.violation(key, what, case)
    t = zwgen.by_size(2)[2][20][1]
    ctx.sample({"program": zwmodel.render(t), "rewrites": [v[2] for v in list(variants(t))[:6]]})
    n = ctx.counts.get("rewrites_executed", 0) + ctx.counts.get("escape_spellings", 0) + ctx.counts.get("simplifier_shapes", 0) + ctx.counts.get("comment_programs", 0) + ctx.counts.get("directive_on_dwarf_values", 0)
    cov = {
        "states": n + ctx.counts.get("programs", 0),
        "transitions": n + ctx.counts.get("programs", 0),
        "traces_validated_against_impl": n,
        "evaluations": n,
        "distinct_nontrivial": n,
        "distinct_outcomes": kinds,
        "rule": "state = (program, one rewrite at one position) run on the engine and compared with the unrewritten program on the same inputs; "
                "distinct = distinct (program, rewrite, position); distinct_outcomes = rewrites applied per kind",
        "bounds": {"corpora": "Z_3 transformers up to 3 nodes (4 thorough) on inputs 0,1,2; binder programs of depth 1 (every 4th of depth 2 thorough); literal/format/infix corpus",
                   "layouts": LAYOUTS, "directive_sources_dwarf": DW_SOURCES,
                   "comment_bodies": {"block_alphabet": ["*", "/", "x", " ", "\"", "\\n"], "line_alphabet": ["*", "/", "#", "x", "\"", " "], "max_length": cbounds[0],
                                      "pairs_of_block_comments_with_bodies_up_to": cbounds[1]},
                   "simplifier_shapes": {"pieces": PIECES, "max_pieces": shape_bounds[0], "contexts": SHAPE_CTX, "max_pieces_in_context": shape_bounds[1],
                                         "engine": "plain" if thorough else "sanitized"},
                   "escapes": "every byte 0-255 x every spelling (1-3 digit octal, \\xhh, \\xHH, named, literal, %%) x 9 following contexts, compared with the bytes it denotes"},
    }
    return ctx.finish("model_checking", cov, [
        "both sides of every equivalence are executed on the implementation; no model is involved",
        "E? vs (E,) and if vs (?(C) A, !(C) B) are compared as multisets per input (the order of alternatives differs by construction)",
        "`?(E)` vs `([E] != [])` is applied only where E leaves a value (all corpus bodies do)",
    ], replay)
