"""C12 - a compiled query is a pure function of its input stack.

Explicit search over API histories.  A history works on up to three
executions, each a (compiled query object, input stack) pair drawn from:
the query under test on input s1 / s2, a second object compiled from the same
text, and a different query of the corpus.  Actions: start an execution
(zw_query_execute), pull one result, destroy the result set (possibly before
exhaustion, possibly after pulling past the end).  The default history runs
every execution to exhaustion one after the other; a deviation is acting on
another live execution while the current one is live and not exhausted, or
destroying early.  All histories with at most d deviations are enumerated.
Oracle on every pull: the k-th pull of an execution returns the k-th result of
a fresh-process parse-and-run of that text on that input (or end); after the
history both input stack objects are unchanged.
"""
import itertools, os
import common, drv

CORE = [
    "(1 add, 2 add, 3 add)",
    "(?(1 ?eq) 10 || 20, 30)",
    "(1 add ?(5 ?lt))*",
    "(1 add ?(5 ?lt))+",
    "let A := (10, 20); A add",
    '"%s:%( (1, 2) %)"',
    "[(1, 2, 3)] elem",
    "[(1, 2, 3)] relem",
    "if ?(1 ?eq) then (10, 11) else (20, 21, 22)",
    '(1, "x") (|V| V V add)',
    "{(1, 2) add} apply",
    "let F := {dup (1, 2) add}; F",
    "7 8 `[(1, 2)]",
    "7 8 ``[(1, 2)]",
    "7 8 `[] (1, 2)",
    "((1 add, 2 add) ?(6 ?lt))*",
    "let A := (?(1 ?eq) 1 || 2); (A, A 1 add)",
    '["%( (1, 2) %)"] elem',
    '"%( (1 add ?(4 ?lt))* %)"',
    "(if ?(1 ?eq) then 1 else 2, 3)",
    "[1, 2, 3] (|L| L elem L relem add)",
    "(1, 2) (dup, 10 add) (?(10 ?gt) || 0)",
    '"ab" elem "%s%s"',
    "(?(2 ?eq) (1, 2), 3) [|A| A, A]",
    "(|X| (1, 2) (|Y| X Y add, X Y mul))",
    "(1 add)? (2 mul)?",
    "?((1, 2) == 2) (4, 5)",
    "(1, 2, 3) !(2 ?eq)",
    "(3, 1 0 div, 4)",
    '("a", 1) 1 add',
    "[(1 add ?(4 ?lt))*] length",
    "(|A| [A, A 1 add] elem (?(pos == 0) 100, ?(pos == 1) 200) add)",
    # values stored in the compiled query (literals) and words that could modify an operand in place
    "[] [1] add",
    "[] (|E| E [1] add, E [2] add)",
    "[1] [] add [2] add",
    "let E := []; (E [1] add, E [2] add) E add",
    '"" "a" add "b" add',
    "[[]] elem [1] add",
    "[] dup [1] add swap [2] add",
    "(|X| [] [X] add [X] add)",
    "[[], [1]] (|L| L elem [2] add, L)",
    "{[] [3] add} (|B| B apply B apply add)",
]
# queries that take sequences / strings from the INPUT stack (s1 = `[] [7]`, s2 = `"" []`)
SEQIN = [
    "[9] add",
    "swap [9] add",
    "(|A B| A [1] add, B [2] add, A B)",
    "dup [1] add add",
    "(|A B| [A, B] elem [3] add)",
    "drop (|A| A [1] add A [2] add add)",
]
DWARF = [
    "entry (pos < 3)", "unit", "entry ?root child (pos < 3)", "entry (pos < 4) parent", "entry (pos < 3) root", "entry (pos < 3) attribute (pos == 0)",
    "entry (pos < 4) @AT_name", "symbol (pos < 3)", "entry (pos < 3) abbrev", "abbrev entry (pos < 3)", "entry (pos == 0) child* (pos < 3)",
    "entry (pos < 2) attribute (pos < 2) value", "entry (pos < 4) @AT_type*",
    "(|D| D entry (pos == 1) D entry (pos == 2) ?lt)", "raw entry ?haschildren (pos < 3)", "entry ?(@AT_decl_file) (pos < 2) @AT_decl_file", "entry (pos < 3) name",
]


# the same traversal in cooked and in raw mode (files with partial units: the two modes list different units / DIEs)
TWINS = [("unit", "raw unit"), ("entry (pos < 4)", "raw entry (pos < 4)"), ("unit root", "raw unit root"), ("[unit] length", "[raw unit] length"),
         ("entry (pos < 3) child (pos < 2)", "raw entry (pos < 3) child (pos < 2)"), ("entry (pos < 4) parent", "raw entry (pos < 4) parent"),
         ("unit (pos == 1) entry (pos < 3)", "raw unit (pos == 1) entry (pos < 3)"), ("entry ?root", "raw entry ?root")]


# queries on the damaged input: some fail after a few results, some do not reach the damage
DAMAGED = ["entry parent", "raw entry parent", "entry (pos < 3)", "entry root", "unit", "unit (pos == 0) entry parent", "entry ?root", "entry offset"]


def damaged_file():
    """A two-unit file whose last DIE carries an abbreviation code that its table does not define (libdw reports
    `invalid DWARF` when the walk gets there).  Built with the generator, then one byte is overwritten."""
    import elfgen as g, dwread
    A, D = g.Attr, g.Die
    units = []
    for ui in range(2):
        kids = [D("DW_TAG_subprogram", [A("DW_AT_name", "DW_FORM_string", b"f%d" % ui)], [D("DW_TAG_formal_parameter", [A("DW_AT_name", "DW_FORM_string", b"p")])]),
                D("DW_TAG_variable", [A("DW_AT_name", "DW_FORM_string", b"v%d" % ui)]), D("DW_TAG_typedef", [A("DW_AT_name", "DW_FORM_string", b"t%d" % ui)])]
        units.append(g.Unit(g.cu_root(b"d%d.c" % ui, version=4, children=kids), 4, 4))
    elf = g.ElfFile(units)
    data = bytearray(elf.tobytes())
    sec = dwread.ElfReader(bytes(data)).section(".debug_info")
    if sec is None:
        return None
    data[sec.offset + units[1].dies[-1].offset] = 0x7f
    os.makedirs("/verif/.build/dw", exist_ok=True)
    path = "/verif/.build/dw/c12-damaged-%d.o" % os.getpid()
    open(path, "wb").write(bytes(data))
    return path


# lookups that leave an error code pending inside libdw (address of a DIE without PCs) next to one that asks libdw
# "name or error?" (const_value of a variable whose type has no name)
CVQ = ["entry address", "entry ?AT_const_value @AT_const_value", "entry ?TAG_variable (address, @AT_const_value)", "entry ?TAG_variable (@AT_const_value, address)",
       "entry ?AT_const_value attribute ?AT_const_value value"]


def cv_file():
    import elfgen as g
    A, D = g.Attr, g.Die
    bt = D("DW_TAG_base_type", [A("DW_AT_name", "DW_FORM_string", b"char"), A("DW_AT_byte_size", "DW_FORM_data1", 1), A("DW_AT_encoding", "DW_FORM_data1", 6)])
    arr = D("DW_TAG_array_type", [A("DW_AT_type", "DW_FORM_ref4", bt)], [D("DW_TAG_subrange_type", [A("DW_AT_upper_bound", "DW_FORM_data1", 3)])])
    st = D("DW_TAG_structure_type", [A("DW_AT_byte_size", "DW_FORM_data1", 4)], [D("DW_TAG_member", [A("DW_AT_name", "DW_FORM_string", b"m"), A("DW_AT_type", "DW_FORM_ref4", bt)])])
    kids = [bt, arr, st,
            D("DW_TAG_variable", [A("DW_AT_name", "DW_FORM_string", b"va"), A("DW_AT_type", "DW_FORM_ref4", arr), A("DW_AT_const_value", "DW_FORM_block1", b"abcd")]),
            D("DW_TAG_variable", [A("DW_AT_name", "DW_FORM_string", b"vs"), A("DW_AT_type", "DW_FORM_ref4", st), A("DW_AT_const_value", "DW_FORM_block1", b"\x01\x02\x03\x04")]),
            D("DW_TAG_variable", [A("DW_AT_name", "DW_FORM_string", b"vi"), A("DW_AT_type", "DW_FORM_ref4", bt), A("DW_AT_const_value", "DW_FORM_data1", 65)])]
    elf = g.ElfFile([g.Unit(g.cu_root(b"cv.c", version=4, children=kids), 4, 4)])
    os.makedirs("/verif/.build/dw", exist_ok=True)
    path = "/verif/.build/dw/c12-cv-%d.o" % os.getpid()
    elf.write(path)
    return path


class Exec:
    __slots__ = ("q", "s")

    def __init__(self, q, s):
        self.q, self.s = q, s


def histories(n_exec, lens, dmax, extra_pull=1):
    """Yield action lists.  Actions: ('E', i) start execution i, ('P', i) pull, ('D', i) destroy.
    lens[i] = number of results of execution i (pulls to exhaustion = lens[i] + 1)."""
    out = []

    def rec(hist, started, pulls, live, last, dev):
        # complete?
        if started == n_exec and not any(live):
            out.append(list(hist))
            return
        acts = []
        if started < n_exec:
            acts.append(("E", started))
        for i in range(started):
            if live[i]:
                if pulls[i] < lens[i] + 1 + extra_pull:
                    acts.append(("P", i))
                acts.append(("D", i))
        for a in acts:
            k, i = a
            cost = 0
            cur_busy = last is not None and live[last] and pulls[last] <= lens[last]   # current not exhausted
            if k == "E":
                cost = 1 if cur_busy else 0
            elif k == "P":
                cost = 1 if (cur_busy and i != last) else 0
            else:
                early = pulls[i] <= lens[i]
                cost = 1 if early or (cur_busy and i != last) else 0
            if dev + cost > dmax:
                continue
            hist.append(a)
            if k == "E":
                live2 = live[:]
                live2[i] = True
                rec(hist, started + 1, pulls, live2, i, dev + cost)
            elif k == "P":
                p2 = pulls[:]
                p2[i] += 1
                rec(hist, started, p2, live, i, dev + cost)
            else:
                live2 = live[:]
                live2[i] = False
                rec(hist, started, pulls, live2, last, dev + cost)
            hist.pop()

    rec([], 0, [0] * n_exec, [False] * n_exec, None, 0)
    return out


def reference(binary, voc, setup, queries, inputs):
    """Fresh process per query: expected result sequence on each input."""
    ref = {}
    for q in queries:
        d = drv.Drv(binary, voc)
        for c in setup:
            d.setup(c)
        for sname, (init, prefix) in inputs.items():
            r = d.run(q, p=prefix, i=init, lim=60)
            res, err = [], None
            for l in r.lines:
                if l.startswith("r "):
                    res.append(l[2:])
                elif l.startswith("e "):
                    err = l[2:]
            ref[(q, sname)] = (res, err, r.crash is not None or r.has("qerr") or r.has("t"))
        d.close()
    return ref


def run_history(d, hist, execs, ref, inputs, tag, reuse=None):
    """Replay one history.  Query objects are compiled afresh for every history, unless REUSE (a dict
    of already compiled objects: the DWARF vocabulary makes compilation expensive) is given.
    Returns (steps, violation or None)."""
    cmds, meta = [], []
    qobj = {}
    for e in execs:
        if e.q not in qobj:
            if reuse is not None:
                qobj[e.q] = reuse[e.q]
                continue
            qobj[e.q] = "q%d" % len(qobj)
            cmds.append("qparse id=%s q=%s" % (qobj[e.q], drv.hx(e.q[1])))
            meta.append(("parse", e.q))
    for a, i in hist:
        e = execs[i]
        if a == "E":
            cmds.append("exec id=r%d q=%s s=%s" % (i, qobj[e.q], e.s))
        elif a == "P":
            cmds.append("pull id=r%d" % i)
        else:
            cmds.append("rdestroy id=r%d" % i)
        meta.append((a, i))
    for sname in inputs:
        cmds.append("showstack id=%s" % sname)
        meta.append(("show", sname))
    if reuse is None:
        for qid in qobj.values():
            cmds.append("qdestroy id=%s" % qid)
            meta.append(("qd", qid))
    rs = d.batch(cmds)
    pulls = [0] * len(execs)
    for (m, r) in zip(meta, rs):
        if r.crash:
            return len(cmds), ("crash", "driver died at step %r: %s %s" % (m, r.crash[0], r.crash[1][-500:]))
        if m[0] == "P":
            i = m[1]
            e = execs[i]
            exp, err, _ = ref[(e.q[1], e.s)]
            k = pulls[i]
            pulls[i] += 1
            line = r.lines[0] if r.lines else ""
            if k < len(exp):
                want = "r " + exp[k]
            elif err is not None:
                want = "e " + err
            else:
                want = "end"
            if k > len(exp) and err is not None:
                continue    # behaviour after a reported error is not specified
            if line != want:
                return len(cmds), ("pull", "execution %d (`%s` on %s): pull #%d returned `%s`, a fresh run gives `%s`" % (i, e.q[1], e.s, k, line, want))
        elif m[0] == "show":
            if (r.lines[0] if r.lines else "") != "ok " + inputs[m[1]][2]:
                return len(cmds), ("input", "input stack %s changed: %r, was %r" % (m[1], r.lines[:1], inputs[m[1]][2]))
        elif m[0] in ("E", "parse"):
            if not r.lines or r.lines[0] != "ok":
                return len(cmds), ("exec", "step %r failed: %r" % (m, r.lines[:2]))
    return len(cmds), None


def combos_for(q, others, dmax, thorough, voc, light=False):
    """(executions, deviation bound) sets explored for query q."""
    if voc == "full":
        dmax = 1
    qa, qa2 = ("A", q), ("A2", q)
    combos = [
        ([Exec(qa, "s1"), Exec(qa, "s1"), Exec(qa, "s2")], dmax),
        ([Exec(qa, "s1"), Exec(qa2, "s1")], dmax + 1),
        ([Exec(qa, "s2"), Exec(qa, "s1")], dmax + 1),
    ]
    if thorough:
        combos += [([Exec(qa, "s1"), Exec(qa, "s2"), Exec(qa, "s1")], dmax), ([Exec(qa, "s1"), Exec(qa2, "s1"), Exec(qa, "s2")], dmax)]
    if light:
        combos = combos[1:]     # quick tier of the auxiliary DWARF corpora: two live result sets at a time
    for o in others:
        combos.append(([Exec(("B", o), "s1"), Exec(qa, "s1")], dmax))
        if thorough:
            combos.append(([Exec(qa, "s1"), Exec(("B", o), "s2"), Exec(qa, "s1")], 1))
    return combos


def split_tasks(tasks, ref, thorough, voc, per_task=25000):
    """Cut (q, others, dmax) into (q, others, dmax, (combo index, k, m)) so that no task runs much more than per_task histories."""
    out = []
    for q, others, dmax in tasks:
        for ci, (execs, dm) in enumerate(combos_for(q, others, dmax, thorough, voc)):
            if any(ref[(e.q[1], e.s)][2] for e in execs):
                continue
            lens = [len(ref[(e.q[1], e.s)][0]) for e in execs]
            n = len(histories(len(execs), lens, dm))
            m = max(1, -(-n // per_task))
            out += [(q, others, dmax, (ci, k, m)) for k in range(m)]
    return out


def _worker(d, task, extra):
    q, others, dmax = task[:3]
    part = task[3] if len(task) > 3 else None
    ref, inputs = extra["ref"], extra["inputs"]
    # (re)create the input stacks in this driver
    for sname, (init, prefix, _) in inputs.items():
        d.cmd("mkstack id=%s i=%s p=%s" % (sname, init or "-", drv.hx(prefix)))
    out = {"histories": 0, "steps": 0, "bad": [], "states": []}
    combos = combos_for(q, others, dmax, extra["thorough"], extra["voc"], extra.get("light", False))
    seen_states = set()
    for ci, (execs, dm) in enumerate(combos):
        if part is not None and part[0] != ci:
            continue
        lens = [len(ref[(e.q[1], e.s)][0]) for e in execs]
        if any(ref[(e.q[1], e.s)][2] for e in execs):
            continue
        reuse = None
        if extra["voc"] == "full":
            reuse = {}
            for e in execs:
                if e.q not in reuse:
                    reuse[e.q] = "p%d" % len(reuse)
                    d.cmd("qparse id=%s q=%s" % (reuse[e.q], drv.hx(e.q[1])))
        hs = histories(len(execs), lens, dm)
        if part is not None:
            hs = hs[part[1]::part[2]]
        for h in hs:
            steps, v = run_history(d, h, execs, ref, inputs, "", reuse)
            if v and v[0] == "crash" and reuse is not None:
                for qk, qid in reuse.items():       # the driver was restarted: compile again
                    d.cmd("qparse id=%s q=%s" % (qid, drv.hx(qk[1])))
            out["histories"] += 1
            out["steps"] += steps
            # abstract states visited: (combo, per-execution status and pulls)
            st = [("n", 0)] * len(execs)
            for a, i in h:
                if a == "E":
                    st[i] = ("l", 0)
                elif a == "P":
                    st[i] = ("l", st[i][1] + 1)
                else:
                    st[i] = ("d", st[i][1])
                seen_states.add((ci, tuple(st)))
            if v:
                key = "hist:%s|%s|%s" % (q, ";".join("%s:%s@%s" % (e.q[0], e.q[1], e.s) for e in execs), "".join("%s%d" % a for a in h))
                out["bad"].append((key, "query `%s`, executions %s, history %s: %s" % (
                    q, [(e.q[0], e.q[1], e.s) for e in execs], " ".join("%s%d" % a for a in h), v[1]),
                    {"q": q, "execs": [[e.q[0], e.q[1], e.s] for e in execs], "hist": [list(a) for a in h], "voc": extra["voc"]}))
                if len(out["bad"]) >= 5:
                    out["states"] = [(q, extra["voc"]) + st for st in seen_states]
                    return out
        if reuse is not None:
            for qid in reuse.values():
                d.cmd("qdestroy id=%s" % qid)
    out["states"] = [(q, extra["voc"]) + st for st in seen_states]
    return out


def inputs_core():
    return {"s1": ("-", "5 1", None), "s2": ("-", "5 2", None)}


def prepare(binary, voc, setup, queries, inputs):
    # canonical text of each input stack
    d = drv.Drv(binary, voc)
    for c in setup:
        d.setup(c)
    ins = {}
    for sname, (init, prefix, _) in inputs.items():
        r = d.cmd("mkstack id=%s i=%s p=%s" % (sname, init or "-", drv.hx(prefix)))
        ins[sname] = (init, prefix, r.lines[0][3:])
    d.close()
    ref = reference(binary, voc, setup, queries, {k: (v[0], v[1]) for k, v in ins.items()})
    return ins, ref


def replay(case):
    ctx = common.Ctx("C12", "quick")
    voc = case.get("voc", "core")
    b = ctx.bin("zwdrv")
    setup, inputs = [], inputs_core()
    if case.get("inputs"):
        inputs = {k: ("-", v, None) for k, v in case["inputs"].items()}
    if voc == "full":
        f1, f2 = case.get("files", ["/repo/tests/typedef.o", "/repo/tests/nontrivial-types.o"])
        if case.get("damaged"):
            f1 = f2 = damaged_file()
        if case.get("cv"):
            f1 = f2 = cv_file()
        setup = ["open id=d1 path=" + drv.hx(f1), "open id=d2 path=" + drv.hx(f2)]
        inputs = {"s1": ("d1", "", None), "s2": ("d2", "", None)}
    qs = sorted(set(e[1] for e in case["execs"]))
    ins, ref = prepare(b, voc, setup, qs, inputs)
    d = drv.Drv(b, voc)
    try:
        for c in setup:
            d.setup(c)
        for sname, (init, prefix, _) in ins.items():
            d.cmd("mkstack id=%s i=%s p=%s" % (sname, init or "-", drv.hx(prefix)))
        execs = [Exec((e[0], e[1]), e[2]) for e in case["execs"]]
        hist = [tuple(a) for a in case["hist"]]
        # a history may depend on what the process did before: replay it several times in one process
        for _ in range(3):
            _, v = run_history(d, hist, execs, ref, ins, "")
            if v:
                return True
        return False
    finally:
        d.close()


ALLSTATES = set()


def main(ctx):
    bins = ctx.build(["zwdrv"])
    b = bins["zwdrv"]
    dmax = 2 if ctx.tier == "thorough" else 1
    thorough = ctx.tier == "thorough"
    # ---- core vocabulary
    ins, ref = prepare(b, "core", [], CORE, inputs_core())
    nothers = 6 if ctx.tier == "thorough" else 3
    tasks = []
    for k, q in enumerate(CORE):
        others = [CORE[(k + 1 + j * 5) % len(CORE)] for j in range(nothers)]
        # the two "drop below" captures must meet in one process in both orders
        if "`[" in q:
            others = [o for o in CORE if "`[" in o and o != q] + others
        tasks.append((q, others, dmax))
    if thorough:
        tasks = split_tasks(tasks, ref, thorough, "core")
    for r in common.pmap(ctx, _worker, tasks, b, "core", extra={"ref": ref, "inputs": ins, "voc": "core", "thorough": thorough}, timeout=60):
        ctx.count("histories", r["histories"])
        ctx.count("api_steps", r["steps"])
        ALLSTATES.update(r["states"])
        for key, what, case in r["bad"]:
            ctx.violation(key, what, case)
    # ---- sequences and strings coming from the input stack
    sins, sref = prepare(b, "core", [], SEQIN, {"s1": ("-", "[] [7]", None), "s2": ("-", '"x" [] []', None)})
    stasks = [(q, [SEQIN[(k + 1) % len(SEQIN)]], dmax) for k, q in enumerate(SEQIN)]
    if thorough:
        stasks = split_tasks(stasks, sref, thorough, "core")
    for r in common.pmap(ctx, _worker, stasks, b, "core", extra={"ref": sref, "inputs": sins, "voc": "core", "thorough": thorough}, timeout=60):
        ctx.count("histories", r["histories"])
        ctx.count("histories_sequence_inputs", r["histories"])
        ctx.count("api_steps", r["steps"])
        ALLSTATES.update(r["states"])
        for key, what, case in r["bad"]:
            case["inputs"] = {"s1": "[] [7]", "s2": '"x" [] []'}
            ctx.violation(key, what, case)
    # ---- DWARF vocabulary: producers with caches, one Dwarf value reused by every execution
    f1, f2 = "/repo/tests/typedef.o", "/repo/tests/nontrivial-types.o"
    if os.path.exists(f1) and os.path.exists(f2):
        setup = ["open id=d1 path=" + drv.hx(f1), "open id=d2 path=" + drv.hx(f2)]
        dins, dref = prepare(b, "full", setup, DWARF, {"s1": ("d1", "", None), "s2": ("d2", "", None)})
        dtasks = [(q, [DWARF[(k + 3) % len(DWARF)]], 1) for k, q in enumerate(DWARF)]
        if thorough:
            dtasks = split_tasks(dtasks, dref, thorough, "full", per_task=3000)
        for r in common.pmap(ctx, _worker, dtasks, b, "full", setup=setup, extra={"ref": dref, "inputs": dins, "voc": "full", "thorough": thorough}, timeout=120):
            ctx.count("histories", r["histories"])
            ctx.count("histories_dwarf", r["histories"])
            ctx.count("api_steps", r["steps"])
            ALLSTATES.update(r["states"])
            for key, what, case in r["bad"]:
                ctx.violation(key, what, case)
    # ---- raw / cooked twins on inputs with partial units: one Dwarf value enumerated in both modes by different executions
    g1, g2 = "/repo/tests/dwz-partial", "/repo/tests/a1.out"
    if os.path.exists(g1) and os.path.exists(g2):
        setup = ["open id=d1 path=" + drv.hx(g1), "open id=d2 path=" + drv.hx(g2)]
        tq = [q for pair in TWINS for q in pair]
        tins, tref = prepare(b, "full", setup, tq, {"s1": ("d1", "", None), "s2": ("d2", "", None)})
        ttasks = []
        for a, c in TWINS:
            ttasks += [(a, [c], 1), (c, [a], 1)]
        if thorough:
            ttasks = split_tasks(ttasks, tref, thorough, "full", per_task=3000)
        for r in common.pmap(ctx, _worker, ttasks, b, "full", setup=setup, extra={"ref": tref, "inputs": tins, "voc": "full", "thorough": thorough, "light": not thorough}, timeout=120):
            ctx.count("histories", r["histories"])
            ctx.count("histories_dwarf_twins", r["histories"])
            ctx.count("api_steps", r["steps"])
            ALLSTATES.update(r["states"])
            for key, what, case in r["bad"]:
                case["files"] = [g1, g2]
                ctx.violation(key, what, case)
    # ---- a file whose second unit cannot be walked to its end: executions that fail must not poison later ones
    bad_path = damaged_file()
    if bad_path:
        setup = ["open id=d1 path=" + drv.hx(bad_path), "open id=d2 path=" + drv.hx(bad_path)]
        bins_, bref = prepare(b, "full", setup, DAMAGED, {"s1": ("d1", "", None), "s2": ("d2", "", None)})
        btasks = [(q, [DAMAGED[(k + 1) % len(DAMAGED)]], 1) for k, q in enumerate(DAMAGED)]
        if thorough:
            btasks = split_tasks(btasks, bref, thorough, "full", per_task=3000)
        for r in common.pmap(ctx, _worker, btasks, b, "full", setup=setup, extra={"ref": bref, "inputs": bins_, "voc": "full", "thorough": thorough, "light": not thorough}, timeout=120):
            ctx.count("histories", r["histories"])
            ctx.count("histories_damaged_input", r["histories"])
            ctx.count("api_steps", r["steps"])
            ALLSTATES.update(r["states"])
            for key, what, case in r["bad"]:
                case["files"] = [bad_path, bad_path]
                case["damaged"] = True
                ctx.violation(key, what, case)
    # ---- library state outside the Dwarf (libdw's pending error code): one execution's lookups must not change another's
    cv_path = cv_file()
    setup = ["open id=d1 path=" + drv.hx(cv_path), "open id=d2 path=" + drv.hx(cv_path)]
    cins, cref = prepare(b, "full", setup, CVQ, {"s1": ("d1", "", None), "s2": ("d2", "", None)})
    ctasks = [(q, [o for o in CVQ if o != q], 1) for q in CVQ]
    if thorough:
        ctasks = split_tasks(ctasks, cref, thorough, "full", per_task=3000)
    for r in common.pmap(ctx, _worker, ctasks, b, "full", setup=setup, extra={"ref": cref, "inputs": cins, "voc": "full", "thorough": thorough, "light": not thorough}, timeout=120):
        ctx.count("histories", r["histories"])
        ctx.count("histories_pending_error", r["histories"])
        ctx.count("api_steps", r["steps"])
        ALLSTATES.update(r["states"])
        for key, what, case in r["bad"]:
            case["cv"] = True
            ctx.violation(key, what, case)
    ctx.sample({"query": CORE[2], "executions": ["A on s1", "A on s1", "A on s2"], "history": "E0 P0 E1 P1 P0 D0 P1 P1 P1 D1 E2 P2 ... D2",
                "oracle": "k-th pull of each execution = k-th result of a fresh parse-and-run"})
    cov = {
        "states": len(ALLSTATES),
        "transitions": ctx.counts.get("api_steps", 0),
        "traces_validated_against_impl": ctx.counts.get("histories", 0),
        "evaluations": ctx.counts.get("histories", 0),
        "distinct_nontrivial": ctx.counts.get("histories", 0),
        "rule": "a history = complete sequence of execute / pull / destroy calls over up to 3 executions, replayed on fresh query objects; "
                "abstract state = per execution (not started | live | destroyed, pulls done); every history with at most d deviations from "
                "'run each to exhaustion in turn' is enumerated (no state merging: every history is executed); distinct = distinct history",
        "bounds": {"deviations_three_executions": dmax, "deviations_two_executions": dmax + 1, "deviations_dwarf": "1 (three executions) / 2 (two)", "live_result_sets": 3,
                   "core_queries": len(CORE), "dwarf_queries": len(DWARF), "raw_cooked_twin_queries_on_dwz_inputs": len(TWINS) * 2, "extra_pulls_after_end": 1},
    }
    return ctx.finish("model_checking", cov, [
        "the reference sequence of each (query text, input) comes from a fresh process that parses and runs it once",
        "all histories of one query run in one long-lived driver process, so state leaking through process-wide statics accumulates and is visible; "
        "behaviour after zw_result_next has reported an error is not judged",
    ], replay)
