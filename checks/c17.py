"""C17 - location lists, their operations and abbreviations are consistent with the DIEs.

Generated inputs: location attributes as single expressions and as lists in
.debug_loc (DWARF 2-4) / .debug_loclists (DWARF 5) with 0-3 ranges incl. base
address entries; expressions of 0-3 operations drawn from EVERY opcode of
every operand class at boundary operand values; abbreviation tables private
and shared between units, DW_FORM_indirect.  Oracle: the generator's model:
elements = ranges in stored order; length = #elem; relem = reverse; per
operation offset / label / value = stored; ?OP_x on an element <=> some
operation has that opcode; address = the range; for every DIE `abbrev` has the
code, tag, children flag and (name, form) list of the raw DIE; `abbrev entry`
lists every abbreviation of a table exactly once.
"""
import itertools, json, os
import common, drv
import elfgen as g, dwmodel, dwbattery
import c02
from dwbattery import Battery

A, D = g.Attr, g.Die
OPN = lambda n: g.DW["DW_OP_" + n]


def op_menu(version):
    """(op tuple for elfgen, expected `value` results as canonical strings without @pos or None = not judged)"""
    m = []
    none = ["deref", "dup", "drop", "lit0", "lit31", "reg0", "reg31", "nop", "call_frame_cfa", "stack_value", "push_object_address", "and", "plus", "xderef"]
    for n in none:
        m.append(((OPN(n),), []))
    for n, vals in (("const1u", [0, 255]), ("const2u", [0, 65535]), ("const4u", [0, (1 << 32) - 1]), ("const8u", [0, (1 << 64) - 1]), ("pick", [0, 255]),
                    ("deref_size", [1, 8]), ("xderef_size", [4]), ("constu", [0, 127, 128, (1 << 64) - 1]), ("plus_uconst", [0, 1 << 40]), ("regx", [0, 100000]), ("piece", [0, 16])):
        for v in vals:
            m.append(((OPN(n), v), ["c:dec:%d" % v]))
    for n, w in (("const1s", 1), ("const2s", 2), ("const4s", 4), ("const8s", 8)):
        for v in (0, -1, (1 << (8 * w - 1)) - 1, -(1 << (8 * w - 1))):
            m.append(((OPN(n), v), ["c:dec:%d" % v]))
    for n in ("fbreg", "breg0", "breg31", "consts"):
        for v in (0, -1, 63, -64, 64, -65, (1 << 63) - 1, -(1 << 63)):
            m.append(((OPN(n), v), ["c:dec:%d" % v]))
    for n in ("skip", "bra"):
        for v in (0, -1, 32767, -32768):
            m.append(((OPN(n), v), ["c:dec:%d" % v]))
    for v in (0, 0x1000, (1 << 64) - 1):
        m.append(((OPN("addr"), v), ["c:hex:%d" % v]))
    for a, b in ((0, 0), (5, -1), (100000, (1 << 63) - 1), (1, -(1 << 63))):
        m.append(((OPN("bregx"), a, b), ["c:dec:%d" % a, "c:dec:%d" % b]))
    for a, b in ((0, 0), (64, 3), (1 << 40, 1 << 41)):
        m.append(((OPN("bit_piece"), a, b), ["c:dec:%d" % a, "c:dec:%d" % b]))
    for blk in (b"", b"\x00", b"\x01\x02\xff"):
        m.append(((OPN("implicit_value"), blk), ["[" + ",".join("c:hex:%d@0" % x for x in blk) + "]"]))
    return m


def loc_attr_cases(version):
    """Yield (description, attribute value for DW_AT_location (exprloc list or LocList), [(low, high, [op tuples])] model)."""
    menu = op_menu(version)
    # every menu op alone, and in second position after a no-operand op, and as triple
    exprs = [[]]
    exprs += [[op] for op, _ in menu]
    exprs += [[(OPN("dup"),), op] for op, _ in menu[::3]]
    exprs += [[op, (OPN("nop"),), menu[(k * 7) % len(menu)][0]] for k, (op, _) in enumerate(menu[::5])]
    for e in exprs:
        yield "single", e, [(0, (1 << 64) - 1, e)]
    # lists: 0-3 ranges, with base address selection entries
    some = [[(OPN("reg1"),)], [(OPN("fbreg"), -8), (OPN("deref"),)], [], [(OPN("breg7"), 16), (OPN("const1u"), 3), (OPN("plus"),)]]
    lists = [
        [],
        [("pair", 0, 4, some[0])],
        [("pair", 0, 4, some[0]), ("pair", 4, 9, some[1])],
        [("pair", 16, 32, some[1]), ("pair", 0, 4, some[2]), ("pair", 100, 101, some[3])],
        [("base", 0x1000), ("pair", 0, 4, some[0]), ("base", 0x2000), ("pair", 8, 16, some[3])],
        [("pair", 1, 2, some[3]), ("base", 0x7000), ("pair", 0, 1, some[0]), ("pair", 1, 2, some[1])],
    ]
    if version >= 5:
        lists += [[("start_end", 0x5000, 0x5010, some[1]), ("start_length", 0x6000, 0x20, some[0])],
                  [("base", 0x100), ("pair", 0, 8, some[0]), ("start_end", 0x9000, 0x9001, some[3])]]
    for entries in lists:
        ll = g.LocList(entries)
        yield "list", ll, None


def list_alphabet(version):
    some = [[(OPN("reg1"),)], [(OPN("fbreg"), -8), (OPN("deref"),)], [], [(OPN("breg7"), 16), (OPN("const1u"), 3), (OPN("plus"),)]]
    al = [("pair", 0, 4, some[0]), ("pair", 4, 9, some[1]), ("pair", 16, 32, some[3]), ("pair", 8, 8, some[2]), ("base", 0x1000), ("base", 0x7000)]
    if version >= 5:
        al += [("start_end", 0x5000, 0x5010, some[1]), ("start_length", 0x6000, 0x20, some[0]), ("default", some[3])]
    return al


def list_cases(version, maxlen):
    """Every location list of up to maxlen entries over the entry alphabet (pairs incl. an empty one, base address
    selections, and for DWARF 5 start_end / start_length / default_location)."""
    al = list_alphabet(version)
    for n in range(maxlen + 1):
        for seq in itertools.product(al, repeat=n):
            yield "list", g.LocList(list(seq)), None


def canon_elem(low, high, nops, pos):
    return "LE:%x:%x:%d@%d" % (low, high, nops, pos)


LOC_ITEMS = {
    "elems": ("@AT_location", "entry ?AT_location"),
    "raw_elems": ("@AT_location", "raw entry ?AT_location"),
    "lengths": ("@AT_location length", "entry ?AT_location"),
    "addresses": ("@AT_location address", "entry ?AT_location"),
    "ops": ("@AT_location elem", "entry ?AT_location"),
    "rops": ("@AT_location relem", "entry ?AT_location"),
    "op_offsets": ("@AT_location elem offset", "entry ?AT_location"),
    "op_labels": ("@AT_location elem label", "entry ?AT_location"),
    "op_values": ("@AT_location elem (|O| [O value])", "entry ?AT_location"),
    "rop_labels": ("@AT_location relem label", "entry ?AT_location"),
    "op_pos": ("@AT_location elem pos", "entry ?AT_location"),
    "rop_pos": ("@AT_location relem pos", "entry ?AT_location"),
    "L_length_is_elem_count": ("@AT_location ?(length != [elem] length)", "entry ?AT_location"),
    "L_attr_value_same": ("(|D| ?([D @AT_location] != [D attribute ?AT_location value]))", "entry ?AT_location"),
}


def build_loc_file(version, osz=4, lists=None, low_pc=0):
    cases = list(loc_attr_cases(version)) if lists is None else list(list_cases(version, lists))
    kids, model = [], []
    form = "DW_FORM_exprloc" if version >= 4 else "DW_FORM_block1"
    ptr = g.secptr_form(version, osz)
    for kind, val, ranges in cases:
        if kind == "single":
            a = A("DW_AT_location", form, val)
        else:
            a = A("DW_AT_location", ptr, val)
        d_ = D("DW_TAG_variable", [A("DW_AT_name", "DW_FORM_string", b"v%d" % len(kids)), a])
        kids.append(d_)
        model.append((d_, kind, val, ranges))
    # operations that refer to a type DIE (GNU and, for DWARF 5, standard spellings): the first operand that is a DIE
    # reference is reported as its unit-relative offset
    bt = D("DW_TAG_base_type", [A("DW_AT_name", "DW_FORM_string", b"T"), A("DW_AT_byte_size", "DW_FORM_data1", 4), A("DW_AT_encoding", "DW_FORM_data1", 5)])
    typed = []
    names = ["GNU_convert", "GNU_reinterpret", "GNU_regval_type", "GNU_deref_type"] + (["convert", "reinterpret", "regval_type", "deref_type"] if version >= 5 else [])
    for nm in names:
        if nm.endswith("convert") or nm.endswith("reinterpret"):
            op = (OPN(nm), bt)
            kind_ = "ref"
        elif nm.endswith("regval_type"):
            op = (OPN(nm), 7, bt)
            kind_ = "u-ref"
        else:
            op = (OPN(nm), 4, bt)
            kind_ = "u-ref"
        d_ = D("DW_TAG_variable", [A("DW_AT_name", "DW_FORM_string", b"t_" + nm.encode()), A("DW_AT_location", form, [op])])
        typed.append((d_, nm, op, kind_))
    if lists is not None:
        typed = []
    root = g.cu_root(b"l.c", version=version, offset_size=osz, low_pc=low_pc, children=[bt] + kids + [t[0] for t in typed])
    elf = g.ElfFile([g.Unit(root, version, osz)])
    elf.typed, elf.bt, elf.low_pc = typed, bt, low_pc
    return elf, model


def loc_expected(elf, model, version, osz):
    fid = 1
    menu = {op: exp for op, exp in op_menu(version)}
    e = {k: [] for k in LOC_ITEMS}
    for i, (die, kind, val, ranges) in enumerate(model):
        if kind == "list":
            ranges = [(lo, hi, ops) for (lo, hi, ops) in val.ranges(elf.low_pc)]
        pos_entry = None  # position within `entry ?AT_location`: all DIEs but the root have the attribute
        dc = dwmodel.die_canon(fid, die, False, (), i + 2)
        dr = dwmodel.die_canon(fid, die, True, (), i + 2)
        enc = [g.resolve_ops(ops, 8, osz, version) for (_, _, ops) in ranges]
        elems = [canon_elem(lo, hi, len(ops), k) for k, (lo, hi, ops) in enumerate(ranges)]
        e["elems"].append((dc, elems))
        e["raw_elems"].append((dr, elems))
        e["lengths"].append((dc, ["c:dec:%d@0" % len(ops) for (_, _, ops) in ranges]))
        e["addresses"].append((dc, ["AS:%s@0" % ("%x+%x" % (lo, (hi - lo) & ((1 << 64) - 1)) if hi != lo else "") for (lo, hi, _) in ranges]))

        def lo_canon(roff, op, pos):
            atom = op[0]
            n1 = n2 = 0
            return (roff, atom)
        ops_f, ops_r, offs, labels, values = [], [], [], [], []
        for r in enc:
            for k, (roff, opc, operands) in enumerate(r):
                offs.append("c:Dwarf_Off:%d@0" % roff)
                labels.append("c:DW_OP_:%d@0" % opc)
        for (_, _, ops) in ranges:
            for op in ops:
                exp = menu.get(tuple(op))
                if exp is None and len(op) == 1:
                    exp = []
                if exp is None:
                    exp = {(OPN("fbreg"), -8): ["c:dec:-8"], (OPN("breg7"), 16): ["c:dec:16"], (OPN("const1u"), 3): ["c:dec:3"]}.get(tuple(op))
                values.append("[" + ",".join((x if x.startswith("[") else x) + "@0" for x in exp) + "]@0")
        e["op_offsets"].append((dc, offs))
        e["op_labels"].append((dc, labels))
        e["op_values"].append((dc, values))
        rl, pp = [], []
        for r in enc:
            rl += ["c:DW_OP_:%d@0" % opc for (_, opc, _) in reversed(r)]
            pp += ["c:pos:%d@0" % k for k in range(len(r))]
        e["rop_labels"].append((dc, rl))
        e["op_pos"].append((dc, pp))
        e["rop_pos"].append((dc, pp))
        for k in ("L_length_is_elem_count", "L_attr_value_same"):
            e[k].append((dc, []))
    del e["ops"]
    del e["rops"]
    # typed operations
    base = len(model) + 2
    unit = elf.units[0]
    for k, (die, nm, op, kind_) in enumerate(elf.typed):
        dc = dwmodel.die_canon(fid, die, False, (), base + k)
        rel = elf.bt.offset - unit.offset
        vals = ["c:dec:%d@0" % rel] if kind_ == "ref" else ["c:dec:%d@0" % op[1], "c:dec:%d@0" % rel]
        e["elems"].append((dc, [canon_elem(0, (1 << 64) - 1, 1, 0)]))
        e["raw_elems"].append((dwmodel.die_canon(fid, die, True, (), base + k), [canon_elem(0, (1 << 64) - 1, 1, 0)]))
        e["lengths"].append((dc, ["c:dec:1@0"]))
        e["addresses"].append((dc, ["AS:0+ffffffffffffffff@0"]))
        e["op_offsets"].append((dc, ["c:Dwarf_Off:0@0"]))
        e["op_labels"].append((dc, ["c:DW_OP_:%d@0" % op[0]]))
        e["op_values"].append((dc, ["[" + ",".join(vals) + "]@0"]))
        e["rop_labels"].append((dc, ["c:DW_OP_:%d@0" % op[0]]))
        e["op_pos"].append((dc, ["c:pos:0@0"]))
        e["rop_pos"].append((dc, ["c:pos:0@0"]))
        for kk in ("L_length_is_elem_count", "L_attr_value_same"):
            e[kk].append((dc, []))
    return e


LOCBAT = Battery(LOC_ITEMS)

ABBREV_ITEMS = {
    "abbrev": ("abbrev", "raw entry"),
    "abbrev_code": ("abbrev code", "raw entry"),
    "abbrev_label": ("abbrev label", "raw entry"),
    "abbrev_offset": ("abbrev offset", "raw entry"),
    "abbrev_haschildren": ("abbrev ?haschildren", "raw entry"),
    "abbrev_attrs": ("abbrev attribute", "raw entry"),
    "abbrev_attr_labels": ("abbrev attribute label", "raw entry"),
    "abbrev_attr_forms": ("abbrev attribute form", "raw entry"),
    "abbrev_units": ("abbrev", None),
    "abbrev_entries": ("entry", "abbrev"),
    "L_labels_match": ("(|D| ?([D abbrev attribute label] != [D attribute label]))", "raw entry"),
    "L_tag_matches": ("(|D| ?(D abbrev label != D label))", "raw entry"),
    "L_children_match": ("(|D| (D ?haschildren !(D abbrev ?haschildren), D !haschildren ?(D abbrev ?haschildren)))", "raw entry"),
    "L_cooked_same": ("(|D| ?([D abbrev] != [D raw abbrev]))", "entry"),
}
ABBAT = Battery(ABBREV_ITEMS)


def build_abbrev_file(variant):
    """Units with private / shared abbreviation tables, indirect forms, non-contiguous codes."""
    version = [2, 3, 4, 5][variant % 4]
    shared = g.AbbrevTable() if variant & 4 else None
    share_none = g.AbbrevTable(share=False) if variant & 8 else None
    units = []
    for ui in range(3):
        kids = []
        for k in range(5):
            ind = bool((variant >> 4) & 1) and k % 2 == 0
            attrs = [A("DW_AT_name", "DW_FORM_string", b"n%d" % k, indirect=ind), A("DW_AT_decl_line", "DW_FORM_data1" if k % 2 else "DW_FORM_udata", k + 1, indirect=ind and k % 4 == 0)]
            if k == 3:
                attrs.append(A("DW_AT_external", "DW_FORM_flag", 1))
            sub = [D("DW_TAG_formal_parameter", [A("DW_AT_name", "DW_FORM_string", b"p")])] if k in (1, 4) else []
            kids.append(D(["DW_TAG_variable", "DW_TAG_subprogram", "DW_TAG_typedef"][k % 3], attrs, sub, children_flag=True if (k == 2 and variant & 32) else None))
        root = g.cu_root(b"u%d.c" % ui, version=version, children=kids)
        table = shared if (shared is not None and ui != 1) else (share_none if (share_none is not None and ui == 1) else None)
        units.append(g.Unit(root, version, 4, abbrev_table=table))
    return g.ElfFile(units)


LOC_ATTRS = ["DW_AT_location", "DW_AT_data_member_location", "DW_AT_frame_base", "DW_AT_static_link", "DW_AT_return_addr",
             "DW_AT_use_location", "DW_AT_vtable_elem_location", "DW_AT_segment", "DW_AT_data_location"]
STRLEN_KEY = "locattr-not-interpreted:DW_AT_string_length"
LOCATTR_ITEMS = {"attrval": ("attribute (pos == 1) value", "entry ?TAG_variable"),
                 "attrval_raw": ("attribute (pos == 1) value", "raw entry ?TAG_variable"),
                 "attr_elem_labels": ("attribute (pos == 1) value elem label", "entry ?TAG_variable")}
for _a in LOC_ATTRS:
    LOCATTR_ITEMS["at_" + _a[6:]] = ("@" + _a[3:], "entry ?" + _a[3:])
LOCATTRBAT = Battery(LOCATTR_ITEMS)


def build_locattr_file(version):
    """Every location-class attribute stored as an expression and as a list pointer, in the forms of this DWARF version."""
    eform = "DW_FORM_exprloc" if version >= 4 else "DW_FORM_block1"
    ptr = g.secptr_form(version, 4)
    e1 = [(OPN("fbreg"), -24), (OPN("deref"),)]
    kids, model = [], []
    for an in LOC_ATTRS:
        variants = [("expr", A(an, eform, e1), [(0, (1 << 64) - 1, e1)])]
        if version < 4:
            variants.append(("expr-block2", A(an, "DW_FORM_block2", [(OPN("reg5"),)]), [(0, (1 << 64) - 1, [(OPN("reg5"),)])]))
        if an not in ("DW_AT_data_member_location", "DW_AT_data_location"):
            ll = g.LocList([("pair", 0x10, 0x20, [(OPN("reg5"),)]), ("pair", 0x20, 0x30, [(OPN("breg5"), 0)])])
            variants.append(("list", A(an, ptr, ll), None))
        for vn, attr, ranges in variants:
            d_ = D("DW_TAG_variable", [A("DW_AT_name", "DW_FORM_string", b"v%d" % len(kids)), attr])
            kids.append(d_)
            model.append((d_, an, vn, attr.value, ranges))
    root = g.cu_root(b"la.c", version=version, low_pc=0, children=kids)
    return g.ElfFile([g.Unit(root, version, 4)]), model


def locattr_expected(elf, model):
    fid = 1
    e = {k: [] for k in LOCATTR_ITEMS}
    per_attr = {a: 0 for a in LOC_ATTRS}
    for i, (die, an, vn, val, ranges) in enumerate(model):
        if ranges is None:
            ranges = [(lo, hi, ops) for (lo, hi, ops) in val.ranges(0)]
        elems = [canon_elem(lo, hi, len(ops), k) for k, (lo, hi, ops) in enumerate(ranges)]
        dc = dwmodel.die_canon(fid, die, False, (), i + 1)      # the root is entry 0
        dr = dwmodel.die_canon(fid, die, True, (), i + 1)
        e["attrval"].append((dc, elems))
        e["attrval_raw"].append((dr, elems))
        e["attr_elem_labels"].append((dc, ["c:DW_OP_:%d@0" % op[0] for (_, _, ops) in ranges for op in ops]))
        e["at_" + an[6:]].append((dc, elems))
    return e


def strlen_check(d, version, path):
    """DW_AT_string_length is of location class too (DWARF 2-4: block / list pointer).  The tool does not decode it (recorded
    finding): it shows a block as its bytes and refuses a list pointer.  Anything else than that, or than correct location
    elements, is a fresh violation."""
    eform = "DW_FORM_exprloc" if version >= 4 else "DW_FORM_block1"
    e1 = [(OPN("fbreg"), -24), (OPN("deref"),)]
    ll = g.LocList([("pair", 0x10, 0x20, [(OPN("reg5"),)])])
    kids = [D("DW_TAG_variable", [A("DW_AT_name", "DW_FORM_string", b"s0"), A("DW_AT_string_length", eform, e1)]),
            D("DW_TAG_variable", [A("DW_AT_name", "DW_FORM_string", b"s1"), A("DW_AT_string_length", g.secptr_form(version, 4), ll)])]
    elf = g.ElfFile([g.Unit(g.cu_root(b"sl.c", version=version, low_pc=0, children=kids), version, 4)])
    elf.write(path)
    rs = d.batch(["open id=d1 path=" + drv.hx(path), drv.run_cmd("entry (pos == 1) @AT_string_length", i="d1", lim=5),
                  drv.run_cmd("entry (pos == 2) @AT_string_length", i="d1", lim=5), "close id=d1"])
    bad = []
    for k, r, good, known in ((0, rs[1], [canon_elem(0, (1 << 64) - 1, 2, 0)], lambda r: version < 4 and len(r.results()) == 1 and r.results()[0].startswith("[c:hex:")),
                              (1, rs[2], [canon_elem(0x10, 0x20, 1, 0)], lambda r: not r.results() and r.first("e") is not None
                               and b"DW_AT_string_length not handled" in drv.unhx(r.first("e")))):
        if r.crash:
            bad.append(("strlen:%d:%d|crash" % (version, k), "DW_AT_string_length (DWARF %d, %s): died %s" % (version, ["expression", "list"][k], r.crash[0])))
        elif r.results() == good and not r.first("e"):
            continue
        elif known(r):
            bad.append((STRLEN_KEY, "DW_AT_string_length stored as %s (DWARF %d) is not decoded as a location: %r" % (["a block", "a list pointer"][k], version, r.lines[:2])))
        else:
            bad.append(("strlen:%d:%d" % (version, k), "DW_AT_string_length (DWARF %d, %s) yields %r, expected %r" % (version, ["expression", "list"][k], r.lines[:3], good)))
    return bad


def growth_strings(k):
    """Restricted growth strings of length k: every way to let k units share abbreviation tables."""
    out = [[0]]
    for _ in range(k - 1):
        out = [x + [j] for x in out for j in range(max(x) + 2)]
    return [tuple(x) for x in out]


def share_cases(kmax):
    for k in range(2, kmax + 1):
        for rgs in growth_strings(k):
            nt = max(rgs) + 1
            for perm in itertools.permutations(range(nt)):
                yield (k, rgs, perm, [2, 3, 4, 5][(k + sum(rgs) + perm[0]) % 4])


def build_share_file(arg):
    """k units; unit i uses table rgs[i]; the tables lie in .debug_abbrev in the order perm (a permutation of their
    first-use order), so units may refer to their tables in any offset order."""
    k, rgs, perm, version = arg
    tabs = [g.AbbrevTable() for _ in range(max(rgs) + 1)]
    units = []
    for ui in range(k):
        kids = [D(["DW_TAG_variable", "DW_TAG_subprogram", "DW_TAG_typedef"][(ui + j) % 3],
                  [A("DW_AT_name", "DW_FORM_string", b"n%d" % j)] + ([A("DW_AT_decl_line", "DW_FORM_data1", j + 1)] if (ui + j) % 2 else []),
                  [D("DW_TAG_formal_parameter", [A("DW_AT_name", "DW_FORM_string", b"p")])] if j == ui % 2 else [])
                for j in range(2)]
        units.append(g.Unit(g.cu_root(b"s%d.c" % ui, version=version, children=kids), version, 4, abbrev_table=tabs[rgs[ui]]))
    elf = g.ElfFile(units)
    elf.abbrev_order = list(perm)
    return elf


def abbrev_expected(view, elf):
    fid = 1
    e = {}
    ents = view.raw_entries()
    DR = lambda d, pos=0: dwmodel.die_canon(fid, d, True, (), pos)

    def ab(d):
        a = d.abbrev
        return "B:f%d:%d:%x:%d" % (fid, a.code, a.tag, 1 if a.children else 0)

    def per(fn):
        return [(DR(d, i), fn(d)) for i, d in enumerate(ents)]

    e["abbrev"] = per(lambda d: [ab(d) + "@0"])
    e["abbrev_code"] = per(lambda d: ["c:Dwarf_Abbrev_code:%d@0" % d.abbrev.code])
    e["abbrev_label"] = per(lambda d: ["c:DW_TAG_:%d@0" % d.abbrev.tag])
    e["abbrev_offset"] = per(lambda d: ["c:Dwarf_Off:%d@0" % d.abbrev.offset])
    e["abbrev_haschildren"] = per(lambda d: [ab(d) + "@0"] if d.abbrev.children else [])
    e["abbrev_attrs"] = per(lambda d: ["BA:%x:%x:%x@%d" % (n, f, off, k) for k, ((n, f, ic), off) in enumerate(zip(d.abbrev.specs, d.abbrev.libdw_attr_offsets))])
    e["abbrev_attr_labels"] = per(lambda d: ["c:DW_AT_:%d@0" % n for (n, f, ic) in d.abbrev.specs])
    e["abbrev_attr_forms"] = per(lambda d: ["c:DW_FORM_:%d@0" % f for (n, f, ic) in d.abbrev.specs])
    # one abbreviation unit per distinct table, named by the first unit that uses it
    tabs, first = [], {}
    for u in elf.units:
        t = u.abbrev_table
        if id(t) not in first:
            first[id(t)] = u
            tabs.append(t)
    e["abbrev_units"] = ["BU:f%d:%x@%d" % (fid, first[id(t)].root.offset, i) for i, t in enumerate(tabs)]
    e["abbrev_entries"] = [("BU:f%d:%x@%d" % (fid, first[id(t)].root.offset, i), ["B:f%d:%d:%x:%d@%d" % (fid, a.code, a.tag, 1 if a.children else 0, k) for k, a in enumerate(t.abbrevs)])
                           for i, t in enumerate(tabs)]
    for k in ("L_labels_match", "L_tag_matches", "L_children_match"):
        e[k] = [(DR(d, i), []) for i, d in enumerate(ents)]
    e["L_cooked_same"] = [(dwmodel.die_canon(fid, d, False, ch, i), []) for i, (d, ch) in enumerate(view.cooked_entries())]
    return e


def _worker(d, chunk, extra):
    os.makedirs(dwbattery.DWDIR, exist_ok=True)
    path = os.path.join(dwbattery.DWDIR, "c17-%d.o" % os.getpid())
    out = {"files": 0, "queries": 0, "results": 0, "bad": []}
    for kind, arg in chunk:
        if kind in ("loc", "lists"):
            if kind == "loc":
                version, osz = arg
                elf, model = build_loc_file(version, osz)
            else:
                version, osz, maxlen, low_pc = arg
                elf, model = build_loc_file(version, osz, maxlen, low_pc)
            elf.write(path)
            exp = loc_expected(elf, model, version, osz)
            nq, nr, bad = dwbattery.run_file(d, LOCBAT, elf, path, exp)
        elif kind == "locattrs":
            elf, model = build_locattr_file(arg)
            elf.write(path)
            nq, nr, bad = dwbattery.run_file(d, LOCATTRBAT, elf, path, locattr_expected(elf, model))
            for key, what in strlen_check(d, arg, path):
                out["bad"].append((key, what, {"kind": kind, "arg": arg, "qid": key}))
        else:
            elf = build_abbrev_file(arg) if kind == "abbrev" else build_share_file(arg)
            elf.write(path)
            nq, nr, bad = dwbattery.run_file(d, ABBAT, elf, path, abbrev_expected(dwmodel.View(elf, 1), elf))
        out["files"] += 1
        out["queries"] += nq
        out["results"] += nr
        for qid, what in bad[:6]:
            out["bad"].append(("%s:%s|%s" % (kind, json.dumps(arg), qid), "%s file %s: %s" % (kind, arg, what), {"kind": kind, "arg": arg, "qid": qid}))
    try:
        os.unlink(path)
    except OSError:
        pass
    return out


def replay(case):
    ctx = common.Ctx("C17", "quick")
    d = drv.Drv(ctx.bin("zwdrv"), "full", timeout=120, cmd_timeout=60)
    try:
        arg = tuple(tuple(x) if isinstance(x, list) else x for x in case["arg"]) if isinstance(case["arg"], list) else case["arg"]
        r = _worker(d, [(case["kind"], arg)], None)
        return any(b[2]["qid"] == case["qid"] for b in r["bad"])
    finally:
        d.close()


def main(ctx):
    bins = ctx.build(["zwdrv"])
    thorough = ctx.tier == "thorough"
    tasks = [[("loc", (v, o))] for v in (2, 3, 4, 5) for o in ((4, 8) if thorough else (4,))]
    maxlen = 4 if thorough else 3
    tasks += [[("lists", (v, o, maxlen, lp))] for v in (2, 3, 4, 5) for o in ((4, 8) if thorough else (4,)) for lp in (0, 0x400000)]
    tasks += [[("abbrev", k)] for k in range(64 if thorough else 32)]
    tasks += [[("locattrs", v)] for v in (2, 3, 4, 5)]
    kshare = 5 if thorough else 4
    tasks += [list(c) for c in common.chunks((("share", a) for a in share_cases(kshare)), 20)]
    for r in common.pmap(ctx, _worker, tasks, bins["zwdrv"], "full", timeout=300, cmd_timeout=120):
        for k in ("files", "queries", "results"):
            ctx.count(k, r[k])
        for key, what, case in r["bad"]:
            ctx.violation(key, what, case)
    ctx.count("opcodes_with_operands_checked", len(op_menu(5)))
    ctx.sample({"expression": "DW_OP_bregx 100000 -9223372036854775808", "expect": "offset 0, label DW_OP_bregx, value [100000, -9223372036854775808]"})
    n = ctx.counts.get("results", 0)
    cov = {
        "states": ctx.counts.get("files", 0), "transitions": ctx.counts.get("queries", 0), "traces_validated_against_impl": ctx.counts.get("queries", 0),
        "evaluations": n, "distinct_nontrivial": n,
        "rule": "state = one generated file (location attributes: every opcode of the menu at boundary operands, alone / second / in triples; lists with 0-3 ranges and base entries; "
                "abbreviation layouts: private / shared / unshared tables, indirect forms); every battery query result is compared with the generator's model; distinct = results compared",
        "bounds": {"versions": [2, 3, 4, 5], "op_menu_entries": len(op_menu(5)), "abbrev_variants": 64 if thorough else 32, "location_class_attributes": LOC_ATTRS,
                   "abbrev_sharing": "every way for 2..%d units to share tables (restricted growth strings) x every placement order of the tables in .debug_abbrev" % kshare,
                   "location_lists": {"entry_alphabet": [e[:3] if e[0] != "default" else e[:1] for e in list_alphabet(5)], "max_entries": maxlen, "unit_low_pc": [0, 0x400000]}},
    }
    return ctx.finish("model_checking", cov, [
        "the generator's model is the reference (offsets of operations come from its own encoder, cross-checked by lib/test_elfgen.py against an independent decoder)",
        "opcodes whose operands dwgrep leaves to libdw-internal pointers (const_type, entry_value, implicit_pointer second operand) are not compared",
    ], replay)
