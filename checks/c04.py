"""C04 - assertions and sub-expression contexts never disturb the surrounding stack.

Laws checked on the implementation alone, per single input stack s:
  * `?(E)` and `!(E)` each yield nothing or exactly s (same depth, values,
    positions); exactly one of them yields s;
  * `?w` / `!w` for every predicate word of the vocabulary: each yields nothing
    or s; exactly one yields s unless the word printed a diagnostic, in which
    case neither does; never both;
  * `E1 op E2` yields nothing or s;
  * `let X := E;` yields s once per result of E, unchanged;
  * `[E]` yields s plus exactly one sequence holding the top values of E's results.
E ranges over all expressions up to a size bound over an alphabet with every
stack effect, multi-yield, soft-failing and type-mismatching words; s over all
stacks of depth 0-2 (+ some of depth 3) over a value pool, and DWARF values.
"""
import itertools, os
import common, drv

POOL = ["1", '"ab"', "[1, 2]", "0", "[]"]
ATOMS = ["1", '"a"', "[]", "dup", "swap", "drop", "over", "add", "elem", "length", "1 0 div", '"a" 1 add',
         "(value 1 add ?(3 ?lt))*", "{1} apply", "?(1 ?eq)", "pos", "type", "(1, 2)", "!()",
         # format strings are literals that may consume: directives pop their argument, splices run on the stack
         '"<%s>"', '"%s%s"', '"%( drop 1 %)"', '"%( swap %)"', '"%( (1, 2) %)"']
UN = {"cap": "[%s]", "sub": "?(%s)", "nsub": "!(%s)", "opt": "(%s)?", "bind": "(|A| %s A)"}
BIN = {"cat": "%s %s", "alt": "(%s, %s)", "or": "(%s || %s)"}
OPS = ["==", "!=", "<", "<=", ">", ">=", "=~", "!~"]


def exprs(smax):
    tab = {1: list(ATOMS)}
    for s in range(2, smax + 1):
        cur = []
        for f in UN.values():
            cur += [f % e for e in tab[s - 1]]
        for s1 in range(1, s - 1):
            s2 = s - 1 - s1
            for f in BIN.values():
                cur += [f % (a, b) for a in tab[s1] for b in tab[s2]]
        tab[s] = cur
    out = []
    for s in range(1, smax + 1):
        out += tab[s]
    return out


def input_prefix():
    stacks = [""]
    stacks += POOL
    stacks += ["%s %s" % (a, b) for a in POOL for b in POOL]
    stacks += ["%s %s %s" % (a, b, c) for a, b, c in [("1", '"ab"', "[1, 2]"), ("[1, 2]", "1", "1"), ('"ab"', '"ab"', "0"), ("0", "[]", '"ab"')]]
    # values of every type that carry a non-zero position (second and third element of a sequence), alone and below another value
    for lst in ('[{1}, {2}, {3}]', '["a", "b", "c"]', "[[1], [2], []]", "[5, 6, 7]", "[T_STR, true, 0x10]"):
        stacks += ["%s elem ?1" % lst, "%s elem ?2" % lst, "%s elem ?2 1" % lst]
    return "(" + ", ".join(stacks) + ")", len(stacks)


def groups(resp):
    gs = []
    for l in resp.lines:
        if l.startswith("g "):
            gs.append({"in": l[2:], "res": [], "err": None, "odd": []})
        elif l.startswith("r ") and gs:
            gs[-1]["res"].append(l[2:])
        elif l.startswith("e ") and gs:
            gs[-1]["err"] = l[2:]
        elif l == "t" and gs:
            gs[-1]["odd"].append("truncated")
        elif gs:
            gs[-1]["odd"].append(l)
        else:
            gs.append({"in": None, "res": [], "err": None, "odd": [l]})
    return gs


def seq_of(tops):
    return "[" + ",".join(tops) + "]@0"


def tos(canon_stack):
    # split a canonical stack into its values (top-level blanks only; sequences contain no blanks)
    return canon_stack.split(" ")[-1]


def check_expr(e, prefix, nin, rs):
    """rs: responses for [E alone, ?(E), !(E), [E], let X := E;, let X := E; X, E == 1, 1 != E]"""
    bad, ne = [], 0

    def viol(kind, what):
        bad.append(("expr:%s|%s" % (e, kind), "E = `%s`: %s" % (e, what), {"e": e, "kind": kind}))

    for r in rs:
        if r.crash and "rc=124" in r.crash[0]:
            return -1, bad      # the expression diverges on some input (watchdog): outside the laws, counted
        if r.crash:
            viol("crash", "driver died: %s %s" % (r.crash[0], r.crash[1][-500:]))
            return 0, bad
        if r.has("qerr"):
            return 0, bad       # ill-formed by the compiler's own judgement: nothing to check
    g = [groups(r) for r in rs]
    if any(len(x) != nin for x in g):
        viol("prefix", "prefix yielded %r groups, expected %d" % ([len(x) for x in g], nin))
        return 0, bad
    for i in range(nin):
        alone, q, n, cap, let, letx, inf1, inf2 = (x[i] for x in g)
        s = alone["in"]
        ne += 8
        hard = [x for x in (alone, q, n, cap, let, letx, inf1, inf2) if x["err"]]
        # assertions: nothing or exactly s
        for nm, x in (("?(E)", q), ("!(E)", n), ("E == 1", inf1), ("1 != E", inf2)):
            if x["err"] or x["odd"]:
                continue
            if x["res"] not in ([], [s]):
                viol("unchanged:%s:%d" % (nm, i), "`%s` on stack <%s> yields %r: must be nothing or the unchanged stack" % (nm, s, x["res"]))
        if not q["err"] and not n["err"] and not q["odd"] and not n["odd"]:
            if len(q["res"]) + len(n["res"]) != 1:
                viol("partition:%d" % i, "on stack <%s>: ?(E) yields %r and !(E) yields %r; exactly one must yield" % (s, q["res"], n["res"]))
            if not alone["err"] and not alone["odd"] and bool(alone["res"]) != bool(q["res"]):
                viol("meaning:%d" % i, "on stack <%s>: E yields %d results but ?(E) yields %r" % (s, len(alone["res"]), q["res"]))
        if alone["err"] or alone["odd"]:
            continue
        k = len(alone["res"])
        empty_results = any(x == "-" for x in alone["res"])
        # [E]
        if not cap["err"] and not cap["odd"] and not empty_results:
            exp = [(s + " " if s != "-" else "") + seq_of([tos(x) for x in alone["res"]])]
            if cap["res"] != exp:
                viol("capture:%d" % i, "`[E]` on stack <%s> yields %r, expected %r" % (s, cap["res"], exp))
        # let X := E;
        if not let["err"] and not let["odd"] and not empty_results:
            if let["res"] != [s] * k:
                viol("let:%d" % i, "`let X := E;` on stack <%s> yields %r, expected the stack %d times" % (s, let["res"], k))
        if not letx["err"] and not letx["odd"] and not empty_results and "K@" not in "".join(alone["res"]):
            exp = [(s + " " if s != "-" else "") + tos(x) for x in alone["res"]]
            if letx["res"] != exp:
                viol("letread:%d" % i, "`let X := E; X` on stack <%s> yields %r, expected %r" % (s, letx["res"], exp))
    return ne, bad


def expr_cmds(e, prefix):
    qs = [e, "?(%s)" % e, "!(%s)" % e, "[%s]" % e, "let X := %s;" % e, "let X := %s; X" % e, "(%s) == 1" % e, "1 != (%s)" % e]
    return [drv.run_cmd(q, p=prefix, lim=60) for q in qs]


def _expr_worker(d, chunk, extra):
    prefix, nin = extra["prefix"], extra["nin"]
    out = {"exprs": 0, "exec": 0, "bad": []}
    pending = None
    for e in chunk:
        cmds = expr_cmds(e, prefix)
        d.send(cmds)
        if pending is not None:
            ne, bad = check_expr(pending, prefix, nin, d.recv(8))
            out["exprs"] += 1
            out["exec"] += max(ne, 0)
            out["diverged"] = out.get("diverged", 0) + (ne < 0)
            out["bad"] += bad[:3]
        pending = e
    if pending is not None:
        ne, bad = check_expr(pending, prefix, nin, d.recv(8))
        out["exprs"] += 1
        out["exec"] += max(ne, 0)
        out["diverged"] = out.get("diverged", 0) + (ne < 0)
        out["bad"] += bad[:3]
    return out


# ---------------------------------------------------------------- predicate words
CORE_VALUES = ["1", "-1", "0x10", '"ab"', '""', "[1, 2]", "[]", "true", "T_STR", "{1}", "1 2", '"ab" "a"', "[1, 2] [1]", '"a" 1', "[1] 1",
               '"ab" elem', "[[], 7] elem"]


def check_words(words, prefix, rsq, rsn):
    bad, ne = [], 0
    for w, rq, rn in zip(words, rsq, rsn):
        key = "word:" + w
        if rq.crash or rn.crash:
            c = rq.crash or rn.crash
            bad.append((key + "|crash", "`?%s`/`!%s` died: %s %s" % (w, w, c[0], c[1][-500:]), {"w": w, "kind": "crash"}))
            continue
        gq, gn = groups(rq), groups(rn)
        if len(gq) != len(gn):
            bad.append((key + "|prefix", "`?%s` and `!%s` saw different numbers of inputs" % (w, w), {"w": w, "kind": "prefix"}))
            continue
        # diagnostics are printed per command, not per input: find out which inputs err by the neither-holds rule only
        for a, b in zip(gq, gn):
            ne += 2
            s = a["in"]
            if a["err"] or b["err"] or a["odd"] or b["odd"]:
                continue
            for nm, x in (("?" + w, a), ("!" + w, b)):
                if x["res"] not in ([], [s]):
                    bad.append((key + "|unchanged", "`%s` on stack <%s> yields %r: must be nothing or the unchanged stack" % (nm, s, x["res"]), {"w": w, "kind": "unchanged"}))
            if a["res"] and b["res"]:
                bad.append((key + "|both", "`?%s` and `!%s` both hold on stack <%s>" % (w, w, s), {"w": w, "kind": "both"}))
            if not a["res"] and not b["res"] and not (rq.stderr and rn.stderr):
                bad.append((key + "|neither", "neither `?%s` nor `!%s` holds on stack <%s> and no diagnostic was printed" % (w, w, s), {"w": w, "kind": "neither"}))
    return ne, bad


def word_errors_exact(d, w, inputs_prefix, i=None):
    """Per-input check that 'neither holds' coincides with a diagnostic (one command per input)."""
    return None


def _word_exact_worker(d, chunk, extra):
    """One command per (word, polarity, input), so that diagnostics can be attributed to the input: when evaluating the
    word reports an error on an input, neither polarity may hold there; when it reports none, exactly one holds."""
    values, i = extra["values"], extra.get("i")
    bad, ne = [], 0
    for w in chunk:
        cmds = []
        for v in values:
            cmds.append(drv.run_cmd("?" + w, p=v, i=i, lim=5))
            cmds.append(drv.run_cmd("!" + w, p=v, i=i, lim=5))
        rs = d.batch(cmds)
        for k, v in enumerate(values):
            rq, rn = rs[2 * k], rs[2 * k + 1]
            key = "wordx:%s|%s" % (w, v)
            if rq.crash or rn.crash:
                c = rq.crash or rn.crash
                bad.append((key + "|crash", "`?%s`/`!%s` on `%s` died: %s %s" % (w, w, v, c[0], c[1][-400:]), {"w": w, "v": v, "kind": "crash"}))
                if i is not None:
                    break
                continue
            gq, gn = groups(rq), groups(rn)
            ne += 2
            if len(gq) != 1 or len(gn) != 1 or gq[0]["err"] or gn[0]["err"] or gq[0]["odd"] or gn[0]["odd"]:
                continue
            a, b = gq[0], gn[0]
            for nm, x in (("?" + w, a), ("!" + w, b)):
                if x["res"] not in ([], [x["in"]]):
                    bad.append((key + "|unchanged", "`%s` on stack <%s> yields %r: an assertion yields nothing or the unchanged stack" % (nm, x["in"], x["res"]),
                                {"w": w, "v": v, "kind": "unchanged"}))
            diag = bool(rq.stderr.strip()) or bool(rn.stderr.strip())
            if diag and (a["res"] or b["res"]):
                which = " and ".join(nm for nm, x in (("?" + w, a), ("!" + w, b)) if x["res"])
                bad.append((key + "|holds-on-error", "on stack <%s> the word `%s` reports an error (%r) and yet `%s` holds" % (
                    a["in"], w, (rq.stderr or rn.stderr)[:120], which), {"w": w, "v": v, "kind": "holds-on-error"}))
            if not diag and bool(a["res"]) == bool(b["res"]):
                bad.append((key + "|exactly-one", "on stack <%s>, without any diagnostic, `?%s` %s and `!%s` %s" % (
                    a["in"], w, "holds" if a["res"] else "does not hold", w, "holds" if b["res"] else "does not hold"), {"w": w, "v": v, "kind": "exactly-one"}))
    return {"words": len(chunk), "exec": ne, "bad": bad[:6]}


DW_VALUE_LIST = ["", "entry (pos == 0)", "entry (pos == 1)", "entry (pos == 3)", "entry (pos == 1) attribute (pos == 0)", "entry (pos == 1) attribute (pos == 1)",
                 "entry ?(@AT_location) (pos == 0) @AT_location (pos == 0)", "entry ?(@AT_location) (pos == 0) @AT_location (pos == 0) elem (pos == 0)",
                 "unit (pos == 0)", "entry (pos == 1) abbrev", "entry (pos == 1) abbrev attribute (pos == 0)", "abbrev (pos == 0)", "symbol (pos == 1)",
                 "entry (pos == 0) address", "entry (pos == 1) label", "entry (pos == 1) attribute (pos == 0) form", "entry (pos == 1) attribute (pos == 0) label",
                 "drop 1", 'drop "a"', "drop [1]", "symbol (pos == 1) label", "drop DW_LANG_C", "drop DW_OP_addr", "drop",
                 "drop 0 4 aset 2 6 aset", "drop 0 4 aset 1 2 aset", "drop 1 2 aset 0 4 aset", "drop 0 4 aset 5 6 aset", "drop 0 4 aset 0 4 aset", "drop 0 0 aset 0 4 aset",
                 "drop 0 4 aset 2", "drop 0 4 aset 4", "drop 2 0 4 aset", "drop 0 2 aset 4 6 aset add 1 5 aset", "(|D| D entry (pos == 0) address D entry (pos == 0) address)",
                 "entry (pos == 1) 1", 'entry (pos == 1) "a"', "(|D| D entry (pos == 1) D entry (pos == 3))", "(|D| D entry (pos == 1) attribute (pos == 0) D entry (pos == 1))"]


def pred_words(d):
    r = d.cmd("dumpvoc")
    names = set()
    for l in r.lines:
        if l.startswith("w "):
            _, nm, kind, _ = l.split(" ")
            nm = drv.unhx(nm).decode()
            if kind == "pred" and nm[0] in "?!" and not nm[1:2].isdigit():
                names.add(nm)
    return sorted(n[1:] for n in names if n[0] == "?" and "!" + n[1:] in names)


def _word_worker(d, chunk, extra):
    prefix, i = extra["prefix"], extra.get("i")
    cq = [drv.run_cmd("?" + w, p=prefix, i=i, lim=5) for w in chunk]
    cn = [drv.run_cmd("!" + w, p=prefix, i=i, lim=5) for w in chunk]
    rs = d.batch(cq + cn)
    ne, bad = check_words(chunk, prefix, rs[:len(chunk)], rs[len(chunk):])
    # exact per-input rule for words where some input had neither hold
    return {"words": len(chunk), "exec": ne, "bad": bad[:6]}


DW_VALUES = """(|D| D, D entry (pos == 0, pos == 1, pos == 3), D entry (pos == 1) attribute (pos == 0, pos == 1),
 D entry ?(@AT_location) (pos == 0) @AT_location (pos == 0), D entry ?(@AT_location) (pos == 0) @AT_location (pos == 0) elem (pos == 0),
 D unit (pos == 0), D entry (pos == 1) abbrev, D entry (pos == 1) abbrev attribute (pos == 0), D abbrev (pos == 0),
 D symbol (pos == 1, pos == 2), D entry (pos == 0) address, D entry (pos == 1) label, D entry (pos == 1) attribute (pos == 0) form,
 D entry (pos == 1) attribute (pos == 0) label, 1, "a", [1], D symbol (pos == 1) label, D symbol (pos == 1) binding, DW_LANG_C, DW_ATE_signed, DW_OP_addr)"""

DW_EXPRS = ["child", "parent", "attribute", "@AT_name", "@AT_type", "unit", "root", "child child", "attribute value", "@AT_location elem",
            "abbrev", "abbrev attribute", "child*", "parent*", "@AT_type*", "(child, parent)", "attribute (label, form)", "raw child",
            "cooked attribute", "@AT_decl_file", "name", "offset", "label", "child ?TAG_variable", "?root", "unit entry", "child (pos == 1)",
            "address", "@AT_sibling", "drop", "dup child", "[child] length"]


def replay(case):
    ctx = common.Ctx("C04", "quick")
    if case.get("w") is not None:
        d = drv.Drv(ctx.bin("zwdrv"), case.get("voc", "core"))
        try:
            if case.get("file"):
                d.setup("open id=d1 path=" + drv.hx(case["file"]))
            if case.get("v") is not None:
                r = _word_exact_worker(d, [case["w"]], {"values": [case["v"]], "i": case.get("i")})
                return bool(r["bad"])
            r = _word_worker(d, [case["w"]], {"prefix": case["prefix"], "i": case.get("i")})
            return bool(r["bad"])
        finally:
            d.close()
    d = drv.Drv(ctx.bin("zwdrv"), case.get("voc", "core"))
    try:
        if case.get("file"):
            d.setup("open id=d1 path=" + drv.hx(case["file"]))
            rs = d.batch([drv.run_cmd(q, p="entry", i="d1", lim=200) for q in
                          [case["e"], "?(%s)" % case["e"], "!(%s)" % case["e"], "[%s]" % case["e"], "let X := %s;" % case["e"],
                           "let X := %s; X" % case["e"], "(%s) == 1" % case["e"], "1 != (%s)" % case["e"]]])
            nin = len(groups(rs[0]))
            _, bad = check_expr(case["e"], "entry", nin, rs)
        else:
            prefix, nin = input_prefix()
            _, bad = check_expr(case["e"], prefix, nin, d.batch(expr_cmds(case["e"], prefix)))
        return bool(bad)
    finally:
        d.close()


def main(ctx):
    bins = ctx.build(["zwdrv"])
    prefix, nin = input_prefix()
    smax = 4 if ctx.tier == "thorough" else 3
    es = exprs(smax)
    ctx.sample({"E": es[len(es) // 2], "forms": ["?(E)", "!(E)", "[E]", "let X := E;", "E == 1"], "inputs": nin})
    for r in common.pmap(ctx, _expr_worker, common.chunks(es, 25), bins["zwdrv"], "core", extra={"prefix": prefix, "nin": nin}, timeout=60):
        ctx.count("expressions", r["exprs"])
        ctx.count("executions", r["exec"])
        ctx.count("expressions_diverging_(outside_the_laws)", r.get("diverged", 0))
        for key, what, case in r["bad"]:
            ctx.violation(key, what, case)
    # predicate words, core vocabulary
    d = drv.Drv(bins["zwdrv"], "core")
    words = pred_words(d)
    d.close()
    wprefix = "(" + ", ".join(CORE_VALUES) + ")"
    for r in common.pmap(ctx, _word_worker, common.chunks(words, 8), bins["zwdrv"], "core", extra={"prefix": wprefix}, timeout=60):
        ctx.count("predicate_words_core", r["words"])
        ctx.count("executions", r["exec"])
        for key, what, case in r["bad"]:
            case.update(prefix=wprefix, voc="core")
            ctx.violation(key, what, case)
    for r in common.pmap(ctx, _word_exact_worker, common.chunks(words, 2), bins["zwdrv"], "core", extra={"values": CORE_VALUES + [""]}, timeout=60):
        ctx.count("executions", r["exec"])
        ctx.count("predicate_word_input_pairs", r["exec"] // 2)
        for key, what, case in r["bad"]:
            case.update(voc="core")
            ctx.violation(key, what, case)
    # predicate words and DWARF sub-expressions, full vocabulary, on sample files
    files = ["/repo/tests/bitcount.o", "/repo/tests/nontrivial-types.o"]
    if ctx.tier == "thorough":
        files += ["/repo/tests/dwz-partial", "/repo/tests/enum.o"]
    files = [f for f in files if os.path.exists(f)]
    d = drv.Drv(bins["zwdrv"], "full")
    dwwords = pred_words(d)
    d.close()
    if ctx.tier != "thorough":
        # quick: every family, every fourth member; thorough: all
        dwwords = [w for k, w in enumerate(dwwords) if k % 4 == 0 or not w.startswith(("DW_", "TAG_", "AT_", "FORM_", "OP_", "LANG_", "ATE_"))]
    for f in files[:1 if ctx.tier != "thorough" else 2]:
        setup = ["open id=d1 path=" + drv.hx(f)]
        for r in common.pmap(ctx, _word_worker, common.chunks(dwwords, 12), bins["zwdrv"], "full", setup=setup,
                             extra={"prefix": DW_VALUES, "i": "d1"}, timeout=120):
            ctx.count("predicate_words_dwarf", r["words"])
            ctx.count("executions", r["exec"])
            for key, what, case in r["bad"]:
                case.update(prefix=DW_VALUES, voc="full", file=f, i="d1")
                ctx.violation("%s@%s" % (key, os.path.basename(f)), what, case)
        for r in common.pmap(ctx, _word_exact_worker, common.chunks(dwwords, 4), bins["zwdrv"], "full", setup=setup,
                             extra={"values": DW_VALUE_LIST, "i": "d1"}, timeout=120):
            ctx.count("executions", r["exec"])
            ctx.count("predicate_word_input_pairs", r["exec"] // 2)
            for key, what, case in r["bad"]:
                case.update(voc="full", file=f, i="d1")
                ctx.violation("%s@%s" % (key, os.path.basename(f)), what, case)
    for f in files:
        setup = ["open id=d1 path=" + drv.hx(f)]

        def dw_worker_chunks():
            return common.chunks(DW_EXPRS, 2)
        for r in common.pmap(ctx, _dwexpr_worker, dw_worker_chunks(), bins["zwdrv"], "full", setup=setup, extra={"file": f}, timeout=120):
            ctx.count("dwarf_expressions", r["exprs"])
            ctx.count("executions", r["exec"])
            for key, what, case in r["bad"]:
                case.update(voc="full", file=f)
                ctx.violation("%s@%s" % (key, os.path.basename(f)), what, case)
    n = ctx.counts.get("executions", 0)
    cov = {
        "states": n,
        "transitions": n,
        "traces_validated_against_impl": n,
        "evaluations": n,
        "distinct_nontrivial": ctx.counts.get("expressions", 0) + ctx.counts.get("predicate_words_core", 0)
                               + ctx.counts.get("predicate_words_dwarf", 0) + ctx.counts.get("dwarf_expressions", 0),
        "rule": "state = (sub-expression or predicate word, form, single input stack) executed to exhaustion; the laws compare executions of the "
                "same input with each other (partition, unchanged stack, let multiplicity, capture contents); distinct = distinct expression/word",
        "bounds": {"expression_nodes": smax, "atoms": ATOMS, "combinators": list(UN) + list(BIN), "input_stacks": nin,
                   "files": files},
    }
    return ctx.finish("model_checking", cov, [
        "laws are evaluated on the implementation alone; executions that fail hard (API error, e.g. stack underflow) are outside the laws",
        "for predicate words every (word, input) pair is also run as its own command, so diagnostics are attributed to the input: a diagnostic means neither polarity may hold, "
        "no diagnostic means exactly one holds",
    ], replay)


def _dwexpr_worker(d, chunk, extra):
    out = {"exprs": 0, "exec": 0, "bad": []}
    for e in chunk:
        qs = [e, "?(%s)" % e, "!(%s)" % e, "[%s]" % e, "let X := %s;" % e, "let X := %s; X" % e, "(%s) == 1" % e, "1 != (%s)" % e]
        rs = d.batch([drv.run_cmd(q, p="entry", i="d1", lim=400) for q in qs])
        nin = len(groups(rs[0]))
        ne, bad = check_expr(e, "entry", nin, rs)
        out["exprs"] += 1
        out["exec"] += ne
        out["bad"] += bad[:3]
    return out
