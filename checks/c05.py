"""C05 - navigation words (parent / child / root / unit / entry) agree on every DIE.

Input family: all import graphs over 2 compile units and 3 partial units:
every DAG of DW_TAG_imported_unit edges among the partial units, each partial
unit imported into CU 1 not at all / at top level / nested inside a namespace /
twice, CU 2 importing a subset, import DIEs of partial units at top level or
nested one level down; small bodies.  Plus the C02 forests and the repository's
sample binaries.  On every file, in raw and cooked mode, law queries whose
result must be empty are evaluated by the engine on every DIE, and the exact
results of parent / root / unit / entry are compared with the generator's model
(imports inlined, import chains carried).
"""
import itertools, json, os
import common, drv
import elfgen as g, dwmodel, dwbattery
from dwbattery import Battery

A, D = g.Attr, g.Die


def var(name, attrs=(), children=(), tag="DW_TAG_variable"):
    return D(tag, [A("DW_AT_name", "DW_FORM_string", name)] + list(attrs), list(children))


def imp(target):
    return D("DW_TAG_imported_unit", [A("DW_AT_import", "DW_FORM_ref_addr", target)])


def build_import_family(desc):
    """desc = (pu_edges bitmask over (1,2),(1,3),(2,3), cu1 modes (3 x 0..3), cu2 subset bitmask, nested_pu_imports bit, version)"""
    edges, modes, cu2, nested, version = desc[:5]
    bodies = desc[5] if len(desc) > 5 else (2, 2, 2)      # DIEs in each partial unit: 0 = childless, 1, 2
    pus = []
    for i in range(3):
        body = [var(b"t%d" % i, tag="DW_TAG_typedef"), var(b"ns%d" % i, children=[var(b"in%d" % i)], tag="DW_TAG_namespace")][:bodies[i]]
        pus.append(g.cu_root(b"<pu%d>" % i, version=version, children=body, tag="DW_TAG_partial_unit", low_pc=None))
    pairs = [(0, 1), (0, 2), (1, 2)]
    for k, (a, b) in enumerate(pairs):
        if edges >> k & 1:
            node = imp(pus[b])
            if nested and len(pus[a].children) > 1:
                pus[a].children[1].children.append(node)      # inside the namespace, one level down
            else:
                pus[a].children.insert(min(1, len(pus[a].children)), node)      # between the two ordinary DIEs
    cu1_kids = [var(b"a1")]
    ns = var(b"nsA", children=[var(b"inA")], tag="DW_TAG_namespace")
    for i, m in enumerate(modes):
        if m in (1, 3):
            cu1_kids.append(imp(pus[i]))
        if m in (2, 3):
            ns.children.append(imp(pus[i]))
    cu1_kids.append(ns)
    cu1_kids.append(var(b"z1"))
    cu1 = g.cu_root(b"one.c", version=version, children=cu1_kids)
    cu2_kids = [var(b"a2")] + [imp(pus[i]) for i in range(3) if cu2 >> i & 1] + [var(b"z2", children=[var(b"in2")], tag="DW_TAG_subprogram")]
    if len(desc) > 6 and desc[6]:
        # a DW_TAG_imported_unit that points at a full compile unit (as LTO output does): inlined like any other import
        cu2_kids.insert(1, imp(cu1))
    cu2 = g.cu_root(b"two.c", version=version, children=cu2_kids)
    # unit order: CU1, PU0, CU2, PU1, PU2  (imports point forwards and backwards)
    roots = [cu1, pus[0], cu2, pus[1], pus[2]]
    return g.ElfFile([g.Unit(r, version, 4) for r in roots])


def family(thorough):
    for edges in range(8):
        for modes in itertools.product(range(4), repeat=3):
            for cu2 in (range(8) if thorough else (0, 7)):
                for nested in ((0, 1) if thorough else (edges % 2,)):
                    version = 2 + (edges + sum(modes) + cu2) % 4
                    yield (edges, modes, cu2, nested, version)


def family_bodies(thorough):
    """Partial units with 0, 1 or 2 DIEs of their own (an imported unit may be childless, or hold only an import)."""
    for bodies in itertools.product((0, 1, 2), repeat=3):
        if bodies == (2, 2, 2):
            continue
        for edges in ((0, 1, 5, 7) if thorough else (0, 1, 7)):
            for modes in (((1, 1, 1), (3, 0, 2), (0, 1, 2), (2, 2, 0)) if thorough else ((1, 1, 1), (3, 0, 2), (0, 1, 2))):
                for cu2 in (0, 7):
                    yield (edges, modes, cu2, 0, 2 + (edges + sum(modes) + cu2 + sum(bodies)) % 4, bodies)


def family_cuimport():
    """The second compile unit imports the first one (used by C06's cooked-children comparison only: what `parent` and
    `root` should be for DIEs of a FULL unit reached through an import is outside C05's quantifier)."""
    for edges in (0, 5, 7):
        for modes in ((0, 0, 0), (1, 1, 1), (3, 0, 2), (0, 1, 2)):
            for cu2 in (0, 5):
                yield (edges, modes, cu2, 0, 2 + (edges + sum(modes) + cu2) % 4, (2, 2, 2), 1)


LAWS = {
    # name: (query, prefix) ; every law query must yield NOTHING
    "L_child_parent": ("(|D| D child ?(parent != D))", "entry"),
    "L_child_parent_raw": ("(|D| D child ?(parent != D))", "raw entry"),
    "L_root_is_chain_end": ("(|D| D parent* !(parent) ?(!= D root))", "entry"),
    "L_root_is_chain_end_raw": ("(|D| D parent* !(parent) ?(!= D root))", "raw entry"),
    "L_root_isroot": ("root !root", "entry"),
    "L_root_isroot_raw": ("root !root", "raw entry"),
    "L_chain_end_isroot": ("parent* !(parent) !root", "entry"),
    "L_unit_entry": ("?([unit entry] != [entry])", None),
    "L_unit_entry_raw": ("raw ?([unit entry] != [entry])", None),
    "L_unit_members": ("(|U| ?([U entry] (|A| [U root child*] (|B| (A elem !(== B elem), B elem !(== A elem))))))", "unit"),
    "L_unit_members_raw": ("(|U| ?([U entry] (|A| [U root child*] (|B| (A elem !(== B elem), B elem !(== A elem))))))", "raw unit"),
    "L_unit_lists_die": ("(|D| !(D unit raw entry == D raw))", "entry"),
    "L_unit_lists_die_raw": ("(|D| !(D unit entry == D))", "raw entry"),
    "L_same_route_eq": ("?([entry] != [entry])", None),
    "L_same_route_offset": ("?([entry offset] != [entry offset])", None),
    "L_same_route_label": ("?([entry label] != [entry label])", None),
    "L_same_route_attrs": ("?([entry attribute] != [entry attribute])", None),
    "L_self_eq": ("(|D| D D !eq)", "entry"),
    "L_parent_child_lists": ("(|D| D parent !(child == D))", "entry"),
    "L_parent_child_lists_raw": ("(|D| D parent !(child == D))", "raw entry"),
}
EXACT = {
    "entry": ("entry", None),
    "units": ("unit", None),
    "unit_entry": ("entry", "unit"),
    "parent": ("parent", "entry"),
    "root": ("root", "entry"),
    "unit_of": ("unit", "entry"),
    "chain_end": ("parent* !(parent)", "entry"),
    "isroot": ("?root", "entry"),
    "child_offsets": ("child offset", "entry"),
}
BAT = Battery(dict(list(LAWS.items()) + list(EXACT.items())))
LAWBAT = Battery(dict(LAWS))


def expected(view, with_exact=True):
    fid = view.fid
    e = {}
    for k, (q, p) in LAWS.items():
        if p is None:
            e[k] = []
        elif p == "entry":
            e[k] = [(dwmodel.die_canon(fid, d, False, ch, i), []) for i, (d, ch) in enumerate(view.cooked_entries())]
        elif p == "raw entry":
            e[k] = [(dwmodel.die_canon(fid, d, True, (), i), []) for i, d in enumerate(view.raw_entries())]
        elif p == "unit":
            e[k] = [(dwmodel.unit_canon(fid, u, False, i), []) for i, u in enumerate(view.cooked_units())]
        elif p == "raw unit":
            e[k] = [(dwmodel.unit_canon(fid, u, True, i), []) for i, u in enumerate(view.units)]
    if not with_exact:
        return e
    ents = view.cooked_entries()
    DC = lambda d, ch=(), pos=0: dwmodel.die_canon(fid, d, False, ch, pos)
    e["entry"] = [DC(d, ch, i) for i, (d, ch) in enumerate(ents)]
    e["units"] = [dwmodel.unit_canon(fid, u, False, i) for i, u in enumerate(view.cooked_units())]
    e["unit_entry"] = [(dwmodel.unit_canon(fid, u, False, i), [DC(d, ch, k) for k, (d, ch) in enumerate(view.cooked_entries_of_unit(u))])
                       for i, u in enumerate(view.cooked_units())]

    def per(fn):
        return [(DC(d, ch, i), fn(d, ch)) for i, (d, ch) in enumerate(ents)]

    def par(d, ch):
        r = view.cooked_parent(d, ch)
        return [] if r is None else [DC(r[0], r[1])]

    e["parent"] = per(par)
    e["root"] = per(lambda d, ch: [DC(view.cooked_root(d, ch))])
    e["unit_of"] = per(lambda d, ch: [dwmodel.unit_canon(fid, d.unit, False, 0)])
    # the closure yields its input first: for a root that is the input itself, position included
    e["chain_end"] = [(DC(d, ch, i), [DC(d, ch, i)] if (d.parent is None and not ch) else [DC(view.cooked_root(d, ch))]) for i, (d, ch) in enumerate(ents)]
    e["isroot"] = [(DC(d, ch, i), [DC(d, ch, i)] if d.parent is None else []) for i, (d, ch) in enumerate(ents)]
    e["child_offsets"] = per(lambda d, ch: ["c:Dwarf_Off:%d@0" % c.offset for c, _ in view.cooked_children(d)])
    return e


def _worker(d, task, extra):
    thorough, k, m = task
    os.makedirs(dwbattery.DWDIR, exist_ok=True)
    path = os.path.join(dwbattery.DWDIR, "c05-%d.o" % os.getpid())
    out = {"files": 0, "queries": 0, "results": 0, "dies": 0, "bad": []}
    for desc in itertools.islice(itertools.chain(family(thorough), family_bodies(thorough)), k, None, m):
        elf = build_import_family(desc)
        elf.write(path)
        view = dwmodel.View(elf, 1)
        nq, nr, bad = dwbattery.run_file(d, BAT, elf, path, expected(view))
        out["files"] += 1
        out["queries"] += nq
        out["results"] += nr
        out["dies"] += len(view.cooked_entries()) + len(view.raw_entries())
        for qid, what in bad[:3]:
            out["bad"].append(("imports:%s|%s" % (json.dumps(desc), qid), "import family %s: %s" % (desc, what), {"desc": json.dumps(desc), "qid": qid}))
    try:
        os.unlink(path)
    except OSError:
        pass
    out["bad"] = out["bad"][:8]
    return out


def sample_files():
    names = ["dwz-partial", "dwz-partial2-1", "dwz-partial3-1", "a1.out", "twocus", "nontrivial-types.o", "typedef.o", "nullptr.o", "bitcount.o",
             "enum.o", "inconsistent-types", "haschildren_childless", "aranges.o", "testfile_const_type", "float.o"]
    return [os.path.join("/repo/tests", n) for n in names if os.path.exists(os.path.join("/repo/tests", n))]


def _sample_worker(d, chunk, extra):
    out = {"files": 0, "queries": 0, "bad": []}
    LAWBAT.install(d)
    for f in chunk:
        rs = d.batch(["open id=d1 path=" + drv.hx(f)] + LAWBAT.cmds(lim=100000) + ["close id=d1"])
        if rs[0].crash or not rs[0].lines or not rs[0].lines[0].startswith("ok"):
            continue
        out["files"] += 1
        for (qid, (q, p)), r in zip(LAWBAT.items.items(), rs[1:-1]):
            out["queries"] += 1
            if r.crash:
                out["bad"].append(("sample:%s|%s" % (os.path.basename(f), qid), "%s: `%s` died: %s %s" % (f, q, r.crash[0], r.crash[1][-400:]), {"file": f, "qid": qid}))
                d.batch(["open id=d1 path=" + drv.hx(f)])
                continue
            res = [l for l in r.lines if l.startswith("r ") or l.startswith("e ")]
            if res:
                out["bad"].append(("sample:%s|%s" % (os.path.basename(f), qid), "%s: law `%s`%s is violated, e.g. for %s" % (
                    f, q, (" over `%s`" % p) if p else "", next((l for l in reversed(r.lines[:r.lines.index(res[0]) + 1]) if l.startswith("g ")), res[0])[:200]), {"file": f, "qid": qid}))
    return out


def _kinds_worker(d, chunk, extra):
    """The navigation laws on DWARF 5 files whose units are compile, partial, type and skeleton units in every order."""
    import c02
    os.makedirs(dwbattery.DWDIR, exist_ok=True)
    path = os.path.join(dwbattery.DWDIR, "c05k-%d.o" % os.getpid())
    out = {"files": 0, "queries": 0, "bad": []}
    for _, kinds, osz in chunk:
        c02.build_unit_kinds(kinds, osz).write(path)
        r = _sample_worker(d, [path], None)
        out["files"] += r["files"]
        out["queries"] += r["queries"]
        for key, what, case in r["bad"]:
            out["bad"].append(("kinds:%s:%d|%s" % (kinds, osz, case["qid"]), "DWARF 5 units of kinds %s, %d-byte offsets: %s" % ([c02.UNIT_KINDS[k][7:] for k in kinds], osz, what),
                               {"kinds": kinds, "osz": osz, "qid": case["qid"]}))
    try:
        os.unlink(path)
    except OSError:
        pass
    return out


def replay(case):
    ctx = common.Ctx("C05", "quick")
    d = drv.Drv(ctx.bin("zwdrv"), "full", timeout=120, cmd_timeout=60)
    try:
        if "kinds" in case:
            r = _kinds_worker(d, [("kinds", case["kinds"], case["osz"])], None)
            return any(b[2]["qid"] == case["qid"] for b in r["bad"])
        if "file" in case:
            r = _sample_worker(d, [case["file"]], None)
            return any(b[2]["qid"] == case["qid"] for b in r["bad"])
        desc = json.loads(case["desc"])
        desc = (desc[0], tuple(desc[1]), desc[2], desc[3], desc[4]) + ((tuple(desc[5]),) if len(desc) > 5 else ()) + tuple(desc[6:])
        elf = build_import_family(desc)
        os.makedirs(dwbattery.DWDIR, exist_ok=True)
        path = os.path.join(dwbattery.DWDIR, "c05-replay-%d.o" % os.getpid())
        elf.write(path)
        _, _, bad = dwbattery.run_file(d, BAT, elf, path, expected(dwmodel.View(elf, 1)))
        os.unlink(path)
        return any(q == case["qid"] for q, _ in bad)
    finally:
        d.close()


def main(ctx):
    bins = ctx.build(["zwdrv"])
    thorough = ctx.tier == "thorough"
    m = 256
    for r in common.pmap(ctx, _worker, [(thorough, k, m) for k in range(m)], bins["zwdrv"], "full", timeout=120):
        for k in ("files", "queries", "results", "dies"):
            ctx.count(k, r[k])
        for key, what, case in r["bad"]:
            ctx.violation(key, what, case)
    import c02
    for r in common.pmap(ctx, _kinds_worker, common.chunks(c02.kind_cases(3 if ctx.tier == "thorough" else 2), 6), bins["zwdrv"], "full", timeout=300, cmd_timeout=120):
        ctx.count("unit_kind_files", r["files"])
        ctx.count("queries", r["queries"])
        for key, what, case in r["bad"]:
            ctx.violation(key, what, case)
    for r in common.pmap(ctx, _sample_worker, [[f] for f in sample_files()], bins["zwdrv"], "full", timeout=300, cmd_timeout=120):
        ctx.count("sample_files", r["files"])
        ctx.count("queries", r["queries"])
        for key, what, case in r["bad"]:
            ctx.violation(key, what, case)
    ctx.sample({"family": "CU1 imports PU0 at top level and PU1 inside a namespace; PU0 imports PU2 one level down; CU2 imports all", "laws": list(LAWS)[:6]})
    n = ctx.counts.get("files", 0) + ctx.counts.get("sample_files", 0)
    cov = {
        "states": n,
        "transitions": ctx.counts.get("queries", 0),
        "traces_validated_against_impl": ctx.counts.get("queries", 0),
        "evaluations": ctx.counts.get("queries", 0),
        "distinct_nontrivial": n,
        "rule": "state = one DWARF input (generated import graph or sample binary); transition = one law query (must be empty on every DIE) or exact query compared with the model; "
                "distinct = distinct file",
        "bounds": {"compile_units": 2, "partial_units": 3, "partial_unit_bodies": "2 DIEs each for the full graph family; every assignment of 0 / 1 / 2 DIEs per partial unit for a set of import graphs", "import_graphs": "all DAGs x CU1 import modes (none/top/nested/twice)^3 x CU2 subsets" + ("" if thorough else " (CU2: none or all; nesting of PU imports alternates)"),
                   "dies_visited": ctx.counts.get("dies", 0), "sample_files": [os.path.basename(f) for f in sample_files()]},
    }
    return ctx.finish("model_checking", cov, [
        "the generator's model with imports inlined and import chains carried by parent is the reference for exact results",
        "law queries are evaluated by the engine itself, so they rely on `==` of DIE values (see the recorded C09 finding on import-path wildcards)",
    ], replay)
