"""C06 - cooked view = raw view with imports inlined and inherited attributes integrated.

(1) Import family of C05: cooked `child` = raw children with every
    DW_TAG_imported_unit replaced in place, recursively; partial units are not
    cooked units (exact comparison with the generator's model).
(2) Integration family: every chain DIE -> up to H hops through
    DW_AT_specification / DW_AT_abstract_origin (every kind sequence; hops in
    the same unit via ref4 or in another unit via ref_addr) x every presence
    pattern of three attribute names over the hops, plus DW_AT_sibling /
    DW_AT_declaration on intermediate DIEs.  Oracle: own attributes in order,
    then the integrated ones it lacks (nearest hop wins, never sibling /
    declaration, no name twice).
(3) Sugar laws evaluated by the engine on every DIE / attribute / location
    operation of generated and sample inputs: @AT_x = attribute ?AT_x cooked
    value, ?AT_x <=> attribute ?AT_x yields, name = @AT_name, ?TAG_x / ?FORM_x
    / ?OP_x <=> label / form equals the constant - for every such word.
"""
import itertools, json, os, re
import common, drv
import elfgen as g, dwmodel, dwbattery
import c05
from dwbattery import Battery

A, D = g.Attr, g.Die
NAMES = ["DW_AT_name", "DW_AT_decl_line", "DW_AT_external"]


def chain_file(hops, kinds, cross, version=4):
    """All presence patterns of NAMES (+ sibling/declaration on intermediates) for one (hops, kinds, cross-unit) shape.
    Returns (ElfFile, [list of chains, each a list of DIEs D0..Dh])."""
    chains = []
    kids_main, kids_other = [], []
    npat = 8 ** (hops + 1)
    for pat in range(npat):
        dies = []
        for i in range(hops + 1):
            m = pat >> (3 * i) & 7
            attrs = []
            if m & 1:
                attrs.append(A("DW_AT_name", "DW_FORM_string", b"n%d" % i))
            if m & 2:
                attrs.append(A("DW_AT_decl_line", "DW_FORM_data1", 10 + i))
            if m & 4:
                attrs.append(A("DW_AT_external", "DW_FORM_flag", 1))
            if i > 0 and (pat + i) % 3 == 0:
                attrs.insert(0, A("DW_AT_declaration", "DW_FORM_flag", 1))
            dies.append(D("DW_TAG_subprogram" if i % 2 == 0 else "DW_TAG_variable", attrs))
        for i in range(hops):
            far = cross and (i % 2 == 0)
            link = A("DW_AT_specification" if kinds[i] == "s" else "DW_AT_abstract_origin", "DW_FORM_ref_addr" if far or cross else "DW_FORM_ref4", dies[i + 1])
            # put the link first, in the middle or last, depending on the pattern
            pos = (pat + i) % (len(dies[i].attrs) + 1)
            dies[i].attrs.insert(pos, link)
        for i in range(1, hops + 1):
            if (pat + 2 * i) % 5 == 0:
                dies[i].attrs.append(A("DW_AT_sibling", "DW_FORM_ref4", g.End(dies[i])))
        chains.append(dies)
        for i, d_ in enumerate(dies):
            if cross and i % 2 == 1:
                kids_other.append(d_)
            else:
                kids_main.append(d_)
    cu1 = g.cu_root(b"main.c", version=version, children=kids_main)
    units = [g.Unit(cu1, version, 4)]
    if cross:
        units.append(g.Unit(g.cu_root(b"other.c", version=version, children=kids_other), version, 4))
    return g.ElfFile(units), chains


def chain_shapes(thorough):
    for hops in ((0, 1, 2, 3) if thorough else (0, 1, 2)):
        for kinds in itertools.product("sa", repeat=hops):
            for cross in ((0, 1) if hops else (0,)):
                yield (hops, "".join(kinds), cross)


SUGAR_AT = ["name", "decl_line", "external", "sibling", "declaration", "specification", "abstract_origin", "type"]
CHAIN_ITEMS = {
    "attrs": ("attribute", "entry"),
    "attr_labels": ("attribute label", "entry"),
    "raw_attrs": ("attribute", "raw entry"),
    "at_name": ("@AT_name", "entry"),
    "at_decl_line": ("@AT_decl_line", "entry"),
    "name_word": ("name", "entry"),
    "raw_at_name": ("@AT_name", "raw entry"),
    "has_external": ("?AT_external", "entry"),
    "hasnt_external": ("!AT_external", "entry"),
    "L_name_is_at_name": ("(|D| ?([D name] != [D @AT_name]))", "entry"),
    "L_name_is_at_name_raw": ("(|D| ?([D name] != [D @AT_name]))", "raw entry"),
}
for n in SUGAR_AT:
    CHAIN_ITEMS["L_atval_%s" % n] = ("(|D| ?([D @AT_%s] != [D attribute ?AT_%s cooked value]))" % (n, n), "entry")
    CHAIN_ITEMS["L_atval_raw_%s" % n] = ("(|D| ?([D @AT_%s] != [D attribute ?AT_%s value]))" % (n, n), "raw entry")
    CHAIN_ITEMS["L_hasat_%s" % n] = ("(|D| (D ?AT_%s !(D attribute ?AT_%s), D !AT_%s ?(D attribute ?AT_%s)))" % (n, n, n, n), "entry")
    CHAIN_ITEMS["L_hasat_raw_%s" % n] = ("(|D| (D ?AT_%s !(D attribute ?AT_%s), D !AT_%s ?(D attribute ?AT_%s)))" % (n, n, n, n), "raw entry")
CHAINBAT = Battery(CHAIN_ITEMS)


def chain_expected(view):
    fid = view.fid
    e = {}
    cooked = view.cooked_entries()
    raw = view.raw_entries()
    DC = lambda d, pos=0: dwmodel.die_canon(fid, d, False, (), pos)
    DR = lambda d, pos=0: dwmodel.die_canon(fid, d, True, (), pos)

    def perc(fn):
        return [(DC(d, i), fn(d)) for i, (d, _) in enumerate(cooked)]

    def perr(fn):
        return [(DR(d, i), fn(d)) for i, d in enumerate(raw)]

    e["attrs"] = perc(lambda d: [dwmodel.attr_canon(fid, g.cst(a.name), g.cst(a.form), o, False, k) for k, (a, o) in enumerate(view.cooked_attrs(d))])
    e["attr_labels"] = perc(lambda d: ["c:DW_AT_:%d@0" % g.cst(a.name) for a, o in view.cooked_attrs(d)])
    e["raw_attrs"] = perr(lambda d: [dwmodel.attr_canon(fid, g.cst(a.name), g.cst(a.form), d, True, k) for k, a in enumerate(d.attrs)])

    def sval(d, name, cooked_):
        r = view.find_attr(d, g.DW[name], cooked_)
        return r[0] if r else None

    e["at_name"] = perc(lambda d: ["s:x%s@0" % sval(d, "DW_AT_name", True).value.hex()] if sval(d, "DW_AT_name", True) else [])
    e["name_word"] = e["at_name"]
    e["raw_at_name"] = perr(lambda d: ["s:x%s@0" % sval(d, "DW_AT_name", False).value.hex()] if sval(d, "DW_AT_name", False) else [])
    e["at_decl_line"] = perc(lambda d: ["c:line_number:%d@0" % sval(d, "DW_AT_decl_line", True).value] if sval(d, "DW_AT_decl_line", True) else [])
    e["has_external"] = [(DC(d, i), [DC(d, i)] if sval(d, "DW_AT_external", True) else []) for i, (d, _) in enumerate(cooked)]
    e["hasnt_external"] = [(DC(d, i), [] if sval(d, "DW_AT_external", True) else [DC(d, i)]) for i, (d, _) in enumerate(cooked)]
    for k, (q, p) in CHAIN_ITEMS.items():
        if k.startswith("L_"):
            e[k] = [(DC(d, i), []) for i, (d, _) in enumerate(cooked)] if p == "entry" else [(DR(d, i), []) for i, d in enumerate(raw)]
    return e


IMPORT_ITEMS = {
    "units": ("unit", None),
    "child": ("child offset", "entry"),
    "child_raw": ("child offset", "raw entry"),
    "child_labels": ("child ?TAG_imported_unit", "entry"),
    "unit_roots": ("unit root label", None),
}
IMPBAT = Battery(IMPORT_ITEMS)


def import_expected(view):
    fid = view.fid
    e = {}
    ents = view.cooked_entries()
    e["units"] = [dwmodel.unit_canon(fid, u, False, i) for i, u in enumerate(view.cooked_units())]
    e["child"] = [(dwmodel.die_canon(fid, d, False, ch, i), ["c:Dwarf_Off:%d@0" % c.offset for c, _ in view.cooked_children(d)]) for i, (d, ch) in enumerate(ents)]
    e["child_raw"] = [(dwmodel.die_canon(fid, d, True, (), i), ["c:Dwarf_Off:%d@0" % c.offset for c in d.children]) for i, d in enumerate(view.raw_entries())]
    e["child_labels"] = [(dwmodel.die_canon(fid, d, False, ch, i), []) for i, (d, ch) in enumerate(ents)]
    e["unit_roots"] = ["c:DW_TAG_:%d@0" % g.cst(u.root.tag) for u in view.cooked_units()]
    return e


def _chain_worker(d, chunk, extra):
    os.makedirs(dwbattery.DWDIR, exist_ok=True)
    path = os.path.join(dwbattery.DWDIR, "c06-%d.o" % os.getpid())
    out = {"files": 0, "queries": 0, "results": 0, "dies": 0, "bad": []}
    for (hops, kinds, cross) in chunk:
        elf, chains = chain_file(hops, kinds, cross, version=2 + (hops + cross) % 4 if hops < 3 else 4)
        elf.write(path)
        view = dwmodel.View(elf, 1)
        nq, nr, bad = dwbattery.run_file(d, CHAINBAT, elf, path, chain_expected(view))
        out["files"] += 1
        out["queries"] += nq
        out["results"] += nr
        out["dies"] += len(view.raw_entries())
        for qid, what in bad[:4]:
            out["bad"].append(("chains:%d:%s:%d|%s" % (hops, kinds, cross, qid), "integration chains (hops=%d kinds=%s cross-unit=%d): %s" % (hops, kinds, cross, what),
                               {"part": "chain", "shape": [hops, kinds, cross], "qid": qid}))
    try:
        os.unlink(path)
    except OSError:
        pass
    return out


# ------------------------------------------------------------------ DIEs with both links, and long chains
def link_trees(n):
    """Every integration tree with exactly n DIEs: a node is a tuple of (kind, subtree) links in stored order, kinds distinct."""
    if n == 1:
        return [()]
    out = []
    for k in "sa":
        for t in link_trees(n - 1):
            out.append(((k, t),))
    for n1 in range(1, n - 1):
        n2 = n - 1 - n1
        for t1 in link_trees(n1):
            for t2 in link_trees(n2):
                out.append((("s", t1), ("a", t2)))
                out.append((("a", t1), ("s", t2)))
    return out


def all_nodes(t):
    yield t
    for _, c in t:
        yield from all_nodes(c)


def tree_nodes(t):
    return 1 + sum(tree_nodes(c) for _, c in t)


BOTH_NAMES = [("DW_AT_name", "DW_FORM_string"), ("DW_AT_decl_line", "DW_FORM_data1")]


def both_file(tree, version=4):
    """One unit holding, for every presence pattern of BOTH_NAMES over the tree's DIEs, one copy of the tree.
    Returns (ElfFile, [root die of each copy])."""
    n = tree_nodes(tree)
    kids, roots = [], []
    for pat in range(4 ** n):
        idx = [0]

        def mk(t):
            i = idx[0]
            idx[0] += 1
            m = pat >> (2 * i) & 3
            attrs = []
            if m & 1:
                attrs.append(A("DW_AT_name", "DW_FORM_string", b"n%d" % i))
            if m & 2:
                attrs.append(A("DW_AT_decl_line", "DW_FORM_data1", 10 + i))
            d_ = D("DW_TAG_subprogram", attrs)
            made = [d_]
            for j, (k, c) in enumerate(t):
                sub = mk(c)
                link = A("DW_AT_specification" if k == "s" else "DW_AT_abstract_origin", "DW_FORM_ref4", sub[0])
                # links before, between or after the plain attributes, depending on the pattern
                d_.attrs.insert((pat + i + j) % (len(d_.attrs) + 1) if j == 0 else len(d_.attrs), link)
                made += sub
            return made

        made = mk(tree)
        roots.append(made[0])
        kids += made
    return g.ElfFile([g.Unit(g.cu_root(b"both.c", version=version, children=kids), version, 4)]), roots


def reachable(d_):
    out, work = [], [d_]
    while work:
        x = work.pop()
        out.append(x)
        for a in x.attrs:
            if g.cst(a.name) in (dwmodel.AT_SPEC, dwmodel.AT_AO) and isinstance(a.value, g.Die):
                work.append(a.value)
    return out


BOTH_ITEMS = {
    "attrs": ("attribute", "entry"),
    "at_name": ("@AT_name", "entry"),
    "name_attr": ("attribute ?AT_name cooked value", "entry"),
    "name_word": ("name", "entry"),
    "at_line": ("@AT_decl_line", "entry"),
    "line_attr": ("attribute ?AT_decl_line cooked value", "entry"),
    "has_name": ("?AT_name", "entry"),
    "hasnt_name": ("!AT_name", "entry"),
    "has_line": ("?AT_decl_line", "entry"),
}
BOTHBAT = Battery(BOTH_ITEMS)


def judge_both(view, got):
    """got: qid -> [(input canon, [results])].  The property fixes: own attributes first and in stored order, then every
    integrable attribute reachable through the links that the DIE lacks, no name twice; and the agreement of the words."""
    fid = view.fid
    bad = []
    cooked = view.cooked_entries()
    canon = lambda d_, i=0: dwmodel.die_canon(fid, d_, False, (), i)
    by_in = {q: dict((k.rsplit("@", 1)[0], v) for k, v in got[q]) for q in got}
    for i, (d_, _) in enumerate(cooked):
        key = canon(d_, 0).rsplit("@", 1)[0]
        res = by_in["attrs"].get(key)
        if res is None:
            bad.append(("attrs", "DIE %#x was not visited by `entry`" % d_.offset))
            continue
        own, seen = [], set()
        for a in d_.attrs:
            if g.cst(a.name) not in seen:
                seen.add(g.cst(a.name))
                own.append(dwmodel.attr_canon(fid, g.cst(a.name), g.cst(a.form), d_, False, len(own)))
        if res[:len(own)] != own:
            bad.append(("attrs", "`attribute` on DIE %#x starts with %s, its own attributes are %s" % (d_.offset, res[:len(own)], own)))
            continue
        holders = {}
        for x in reachable(d_)[1:]:
            for a in x.attrs:
                n = g.cst(a.name)
                if n in seen or n in (dwmodel.AT_SIBLING, dwmodel.AT_DECL):
                    continue
                holders.setdefault(n, []).append((a, x))
        rest = res[len(own):]
        names = []
        for k, r in enumerate(rest):
            ok = False
            for n, hl in holders.items():
                if any(r == dwmodel.attr_canon(fid, n, g.cst(a.form), x, False, len(own) + k) for a, x in hl):
                    names.append(n)
                    ok = True
                    break
            if not ok:
                bad.append(("attrs", "`attribute` on DIE %#x yields %s, which no DIE reachable from it through specification / abstract_origin stores (or which it has itself)" % (d_.offset, r)))
        if sorted(names) != sorted(holders):
            bad.append(("attrs", "`attribute` on DIE %#x integrates the names %s; the names it lacks and can reach are %s (each exactly once)" % (
                d_.offset, sorted(names), sorted(holders))))
        for a_q, b_q, what in (("at_name", "name_attr", "`@AT_name` vs `attribute ?AT_name cooked value`"), ("at_name", "name_word", "`@AT_name` vs `name`"),
                               ("at_line", "line_attr", "`@AT_decl_line` vs `attribute ?AT_decl_line cooked value`")):
            if by_in[a_q].get(key) != by_in[b_q].get(key):
                bad.append((b_q, "%s on DIE %#x: %s vs %s" % (what, d_.offset, by_in[a_q].get(key), by_in[b_q].get(key))))
        can_name = any(g.cst(a.name) == g.DW["DW_AT_name"] for x in reachable(d_) for a in x.attrs)
        can_line = any(g.cst(a.name) == g.DW["DW_AT_decl_line"] for x in reachable(d_) for a in x.attrs)
        for q, want in (("has_name", can_name), ("hasnt_name", not can_name), ("has_line", can_line)):
            if bool(by_in[q].get(key)) != want:
                bad.append((q, "`%s` on DIE %#x %s, but the attribute is %s" % (BOTH_ITEMS[q][0], d_.offset, "holds" if by_in[q].get(key) else "does not hold",
                                                                              "reachable" if want == (q != "hasnt_name") else "not reachable")))
        if bool(by_in["at_name"].get(key)) != can_name:
            bad.append(("at_name", "`@AT_name` on DIE %#x yields %s, reachable: %s" % (d_.offset, by_in["at_name"].get(key), can_name)))
    return bad


def _both_worker(d, chunk, extra):
    os.makedirs(dwbattery.DWDIR, exist_ok=True)
    path = os.path.join(dwbattery.DWDIR, "c06b-%d.o" % os.getpid())
    out = {"files": 0, "queries": 0, "results": 0, "dies": 0, "bad": []}
    for tree in chunk:
        elf, roots = both_file(tree)
        elf.write(path)
        view = dwmodel.View(elf, 1)
        BOTHBAT.install(d)
        rs = d.batch(["open id=d1 path=" + drv.hx(path)] + BOTHBAT.cmds() + ["close id=d1"])
        got, broken = {}, False
        for (qid, (q, p)), r in zip(BOTH_ITEMS.items(), rs[1:-1]):
            if r.crash:
                out["bad"].append(("both:%r|%s" % (tree, qid), "link tree %r: `%s` died: %s %s" % (tree, q, r.crash[0], r.crash[1][-400:]), {"part": "both", "tree": repr(tree), "qid": qid}))
                broken = True
                break
            if r.stderr:
                out["bad"].append(("both:%r|%s:stderr" % (tree, qid), "link tree %r: `%s` printed %r" % (tree, q, r.stderr[:200]), {"part": "both", "tree": repr(tree), "qid": qid}))
            got[qid] = dwbattery.parse_groups(r)
            out["results"] += sum(len(x[1]) for x in got[qid])
        out["files"] += 1
        out["queries"] += len(BOTH_ITEMS)
        out["dies"] += len(view.raw_entries())
        if not broken:
            seen = set()
            for qid, what in judge_both(view, got):
                if qid not in seen:
                    seen.add(qid)
                    out["bad"].append(("both:%r|%s" % (tree, qid), "link tree %r: %s" % (tree, what), {"part": "both", "tree": repr(tree), "qid": qid}))
    try:
        os.unlink(path)
    except OSError:
        pass
    return out


LONG_HOPS = (15, 16, 17, 18, 33)


def long_chain_file(version=4):
    """Chains of LONG_HOPS hops (all specification, all abstract_origin, alternating) with name / decl_line at the far end,
    in the middle, or nowhere.  Returns ElfFile."""
    kids = []
    for hops in LONG_HOPS:
        for kinds in ("s" * hops, "a" * hops, ("sa" * hops)[:hops]):
            for where in ("end", "mid", "none"):
                dies = [D("DW_TAG_subprogram", []) for _ in range(hops + 1)]
                at = {"end": hops, "mid": hops // 2 + 1, "none": None}[where]
                if at is not None:
                    dies[at].attrs += [A("DW_AT_name", "DW_FORM_string", b"far%d" % hops), A("DW_AT_decl_line", "DW_FORM_data1", hops)]
                for i in range(hops):
                    dies[i].attrs.append(A("DW_AT_specification" if kinds[i] == "s" else "DW_AT_abstract_origin", "DW_FORM_ref4", dies[i + 1]))
                kids += dies
    return g.ElfFile([g.Unit(g.cu_root(b"long.c", version=version, children=kids), version, 4)])


def _long_worker(d, chunk, extra):
    os.makedirs(dwbattery.DWDIR, exist_ok=True)
    path = os.path.join(dwbattery.DWDIR, "c06l-%d.o" % os.getpid())
    out = {"files": 0, "queries": 0, "results": 0, "dies": 0, "bad": []}
    for version in chunk:
        elf = long_chain_file(version)
        elf.write(path)
        view = dwmodel.View(elf, 1)
        nq, nr, bad = dwbattery.run_file(d, CHAINBAT, elf, path, chain_expected(view))
        out["files"] += 1
        out["queries"] += nq
        out["results"] += nr
        out["dies"] += len(view.raw_entries())
        for qid, what in bad[:6]:
            out["bad"].append(("long:%d|%s" % (version, qid), "chains of %s hops (DWARF %d): %s" % (list(LONG_HOPS), version, what), {"part": "long", "version": version, "qid": qid}))
    try:
        os.unlink(path)
    except OSError:
        pass
    return out


def _import_worker(d, task, extra):
    thorough, k, m = task
    os.makedirs(dwbattery.DWDIR, exist_ok=True)
    path = os.path.join(dwbattery.DWDIR, "c06i-%d.o" % os.getpid())
    out = {"files": 0, "queries": 0, "results": 0, "dies": 0, "bad": []}
    for desc in itertools.islice(itertools.chain(c05.family(thorough), c05.family_bodies(thorough), c05.family_cuimport()), k, None, m):
        elf = c05.build_import_family(desc)
        elf.write(path)
        view = dwmodel.View(elf, 1)
        nq, nr, bad = dwbattery.run_file(d, IMPBAT, elf, path, import_expected(view))
        out["files"] += 1
        out["queries"] += nq
        out["results"] += nr
        out["dies"] += len(view.cooked_entries())
        for qid, what in bad[:3]:
            out["bad"].append(("imports:%s|%s" % (json.dumps(desc), qid), "import family %s: %s" % (desc, what), {"part": "import", "desc": json.dumps(desc), "qid": qid}))
    try:
        os.unlink(path)
    except OSError:
        pass
    out["bad"] = out["bad"][:6]
    return out


# ------------------------------------------------------------------ sugar words over the whole vocabulary
def sugar_words(d):
    words = {"TAG": [], "AT": [], "FORM": [], "OP": []}
    names = set()
    for l in d.cmd("dumpvoc").lines:
        if l.startswith("w "):
            names.add(drv.unhx(l.split(" ")[1]).decode())
    for n in sorted(names):
        m = re.fullmatch(r"\?(TAG|AT|FORM|OP)_(\w+)", n)
        if m and ("DW_%s_%s" % m.groups()) in names and ("!%s_%s" % m.groups()) in names:
            words[m.group(1)].append(m.group(2))
    return words


def sugar_queries(words):
    qs = []
    for x in words["TAG"]:
        qs.append(("TAG_" + x, "entry (?TAG_%s !(label == DW_TAG_%s), !TAG_%s ?(label == DW_TAG_%s), ?DW_TAG_%s !TAG_%s, !DW_TAG_%s ?TAG_%s)" % ((x,) * 8)))
    for x in words["AT"]:
        qs.append(("AT_" + x, "entry attribute (?AT_%s !(label == DW_AT_%s), !AT_%s ?(label == DW_AT_%s), ?DW_AT_%s !AT_%s)" % ((x,) * 6)))
        qs.append(("AT_die_" + x, "entry (|D| (D ?AT_%s !(D attribute ?AT_%s), D !AT_%s ?(D attribute ?AT_%s), ?([D @AT_%s] != [D @DW_AT_%s]), ?([D @AT_%s] != [D attribute ?AT_%s cooked value])))" % ((x,) * 8)))
    for x in words["FORM"]:
        qs.append(("FORM_" + x, "entry attribute (?FORM_%s !(form == DW_FORM_%s), !FORM_%s ?(form == DW_FORM_%s))" % ((x,) * 4)))
    for x in words["OP"]:
        qs.append(("OP_" + x, "entry ?(@AT_location) @AT_location elem (?OP_%s !(label == DW_OP_%s), !OP_%s ?(label == DW_OP_%s))" % ((x,) * 4)))
        qs.append(("OP_elem_" + x, "entry ?(@AT_location) @AT_location (?OP_%s !(elem label == DW_OP_%s), !OP_%s ?(elem label == DW_OP_%s))" % ((x,) * 4)))
    return qs


def _sugar_worker(d, chunk, extra):
    out = {"queries": 0, "bad": []}
    for f in extra["files"]:
        rs = d.batch(["open id=d1 path=" + drv.hx(f)] + [drv.run_cmd(q, i="d1", lim=5) for _, q in chunk] + ["close id=d1"])
        for (name, q), r in zip(chunk, rs[1:-1]):
            out["queries"] += 1
            if r.crash:
                out["bad"].append(("sugar:%s@%s" % (name, os.path.basename(f)), "`%s` on %s died: %s %s" % (q, f, r.crash[0], r.crash[1][-300:]), {"part": "sugar", "name": name, "q": q, "file": f}))
                d.batch(["open id=d1 path=" + drv.hx(f)])
            elif r.results() or r.first("e") or r.first("qerr"):
                out["bad"].append(("sugar:%s@%s" % (name, os.path.basename(f)), "sugar law `%s` is violated on %s: %r" % (q, f, r.lines[:2]), {"part": "sugar", "name": name, "q": q, "file": f}))
    return out


def replay(case):
    ctx = common.Ctx("C06", "quick")
    d = drv.Drv(ctx.bin("zwdrv"), "full", timeout=120, cmd_timeout=60)
    try:
        if case["part"] == "chain":
            r = _chain_worker(d, [tuple(case["shape"])], None)
        elif case["part"] == "both":
            import ast as _ast
            r = _both_worker(d, [_ast.literal_eval(case["tree"])], None)
        elif case["part"] == "long":
            r = _long_worker(d, [case["version"]], None)
        elif case["part"] == "import":
            desc = json.loads(case["desc"])
            desc = (desc[0], tuple(desc[1]), desc[2], desc[3], desc[4]) + ((tuple(desc[5]),) if len(desc) > 5 else ()) + tuple(desc[6:])
            elf = c05.build_import_family(desc)
            path = os.path.join(dwbattery.DWDIR, "c06-replay-%d.o" % os.getpid())
            elf.write(path)
            _, _, bad = dwbattery.run_file(d, IMPBAT, elf, path, import_expected(dwmodel.View(elf, 1)))
            os.unlink(path)
            return any(q == case["qid"] for q, _ in bad)
        else:
            r = _sugar_worker(d, [(case["name"], case["q"])], {"files": [case["file"]]})
        return any(b[2].get("qid", b[2].get("name")) == case.get("qid", case.get("name")) for b in r["bad"])
    finally:
        d.close()


def main(ctx):
    bins = ctx.build(["zwdrv"])
    thorough = ctx.tier == "thorough"
    shapes = list(chain_shapes(thorough))
    for r in common.pmap(ctx, _chain_worker, [[s] for s in shapes], bins["zwdrv"], "full", timeout=300, cmd_timeout=120):
        for k in ("files", "queries", "results", "dies"):
            ctx.count(k, r[k])
        ctx.count("chain_files", r["files"])
        for key, what, case in r["bad"]:
            ctx.violation(key, what, case)
    trees = [t for n in range(1, (6 if thorough else 5)) for t in link_trees(n) if any(len(x) == 2 for x in all_nodes(t))]
    for r in common.pmap(ctx, _both_worker, [[t] for t in trees], bins["zwdrv"], "full", timeout=300, cmd_timeout=120):
        for k in ("files", "queries", "results", "dies"):
            ctx.count(k, r[k])
        ctx.count("both_link_files", r["files"])
        for key, what, case in r["bad"]:
            ctx.violation(key, what, case)
    for r in common.pmap(ctx, _long_worker, [[4], [5]], bins["zwdrv"], "full", timeout=300, cmd_timeout=120, procs=2):
        for k in ("files", "queries", "results", "dies"):
            ctx.count(k, r[k])
        for key, what, case in r["bad"]:
            ctx.violation(key, what, case)
    m = 128
    for r in common.pmap(ctx, _import_worker, [(thorough, k, m) for k in range(m)], bins["zwdrv"], "full", timeout=120):
        for k in ("files", "queries", "results", "dies"):
            ctx.count(k, r[k])
        for key, what, case in r["bad"]:
            ctx.violation(key, what, case)
    d = drv.Drv(bins["zwdrv"], "full")
    words = sugar_words(d)
    d.close()
    qs = sugar_queries(words)
    files = [f for f in ("/repo/tests/nullptr.o", "/repo/tests/bitcount.o", "/repo/tests/dwz-partial") if os.path.exists(f)]
    if not thorough:
        files = files[:2]
    for r in common.pmap(ctx, _sugar_worker, common.chunks(qs, 12), bins["zwdrv"], "full", extra={"files": files}, timeout=300, cmd_timeout=120):
        ctx.count("queries", r["queries"])
        ctx.count("sugar_queries", r["queries"])
        for key, what, case in r["bad"]:
            ctx.violation(key, what, case)
    ctx.count("sugar_words", sum(len(v) for v in words.values()))
    ctx.sample({"chain": "D0 -(abstract_origin)-> D1 -(specification, ref_addr)-> D2; name on D1 and D2, decl_line on D2 only, declaration+sibling on D1",
                "expect": "attribute of D0 = own..., name(D1), decl_line(D2); never sibling/declaration of D1, D2"})
    n = ctx.counts.get("files", 0)
    cov = {
        "states": ctx.counts.get("dies", 0),
        "transitions": ctx.counts.get("queries", 0),
        "traces_validated_against_impl": ctx.counts.get("queries", 0),
        "evaluations": ctx.counts.get("queries", 0),
        "distinct_nontrivial": ctx.counts.get("dies", 0),
        "rule": "state = one DIE of a generated input (every presence pattern of three attribute names over a specification/abstract_origin chain; every import graph) "
                "on which every battery query is evaluated and compared with the model; sugar laws: one query per vocabulary word, evaluated on every DIE/attribute/op of sample files",
        "bounds": {"hops": 3 if thorough else 2, "link_kind_sequences": "all", "cross_unit": "same unit (ref4) and alternating units (ref_addr)",
                   "presence_patterns": "8^(hops+1) per shape", "link_trees_with_a_two_link_DIE": {"max_dies": 5 if thorough else 4, "trees": len(trees), "patterns": "4^dies"},
                   "long_chains_hops": list(LONG_HOPS), "sugar_words": {k: len(v) for k, v in words.items()}, "files": n},
    }
    return ctx.finish("model_checking", cov, [
        "DIEs that carry both DW_AT_specification and DW_AT_abstract_origin: the order in which the two branches are integrated is not fixed by the property; "
        "the check demands own attributes first, every reachable lacking name exactly once from some reachable DIE, and the agreement of @AT_x / attribute ?AT_x / ?AT_x / name",
        "the generator's model is the reference; law queries rely on the engine's own `==`",
    ], replay)
