"""C07 - attribute values decode to the right type, value, sign and constant domain.

Generated product (packed into one file per DWARF version):
  A. DW_AT_const_value on variable / enumerator / template_value_parameter
     x form {data1,2,4,8, sdata, udata, block1 of 1/2/4/8 bytes, implicit_const}
     x type configuration {signed, unsigned, boolean, signed/unsigned char, UTF,
       address, pointer, float, enum with signed/unsigned underlying type, enum
       without one whose enumerators are all sdata / all udata / mixed,
       typedef/const/volatile chains of length 1-3, no type}
     x boundary values {0, 1, 2^(8k-1)-1, 2^(8k-1), 2^(8k)-1};
  B. every attribute with its own constant domain or signedness rule x forms x
     known / unknown values; addresses, section offsets, flags, strings,
     references, location expressions;
  C. DW_AT_decl_file / call_file against generated line tables, own and
     integrated over one and two hops across units.
Oracle: the decoding table of the property statement.  Combinations the tool
does not interpret must give an error or a diagnostic (or, for block forms, the
raw bytes), never a silently different value.
"""
import itertools, json, os
import common, drv
import elfgen as g, dwmodel, dwbattery
from dwbattery import Battery

A, D = g.Attr, g.Die
ATE = {"signed": 5, "unsigned": 7, "boolean": 2, "signed_char": 6, "unsigned_char": 8, "UTF": 0x10, "address": 1, "float": 4}
WIDTH = {"DW_FORM_data1": 1, "DW_FORM_data2": 2, "DW_FORM_data4": 4, "DW_FORM_data8": 8}

ENUM_DOMS = {
    "DW_AT_language": ("DW_LANG_", [1, 0x21, 0x7777]), "DW_AT_inline": ("DW_INL_", [0, 3, 9]), "DW_AT_encoding": ("DW_ATE_", [5, 0x10, 0x70]),
    "DW_AT_accessibility": ("DW_ACCESS_", [1, 3, 9]), "DW_AT_visibility": ("DW_VIS_", [1, 3, 7]), "DW_AT_virtuality": ("DW_VIRTUALITY_", [0, 2, 9]),
    "DW_AT_identifier_case": ("DW_ID_", [0, 3, 8]), "DW_AT_calling_convention": ("DW_CC_", [1, 3, 0x41]), "DW_AT_ordering": ("DW_ORD_", [0, 1, 5]),
    "DW_AT_decimal_sign": ("DW_DS_", [1, 5, 9]), "DW_AT_address_class": ("DW_ADDR_", [0, 7]), "DW_AT_endianity": ("DW_END_", [0, 2, 0x41]),
    "DW_AT_defaulted": ("DW_DEFAULTED_", [0, 2, 5]),
}
UNSIGNED_ATS = ["DW_AT_byte_size", "DW_AT_bit_size", "DW_AT_upper_bound", "DW_AT_lower_bound", "DW_AT_count", "DW_AT_alignment", "DW_AT_data_bit_offset", "DW_AT_high_pc"]
SIGNED_ATS = ["DW_AT_byte_stride", "DW_AT_bit_stride", "DW_AT_binary_scale", "DW_AT_decimal_scale"]


def sext(v, nbytes):
    v &= (1 << (8 * nbytes)) - 1
    return v - (1 << (8 * nbytes)) if v >> (8 * nbytes - 1) else v


def cst(dom, v):
    return "c:%s:%d@0" % (dom, v)


class Case:
    def __init__(self, die, query, expect, what, is_block=False):
        self.die, self.query, self.expect, self.what, self.is_block = die, query, expect, what, is_block


DEEP_CHAINS = False


def type_configs(version):
    """name -> (builder returning (type die or None, [extra top-level dies]), interpretation)
    interpretation: 'signed' | 'unsigned' | 'bool' | 'address' | 'unint' | ('enum', 'sdata'|'udata'|'mixed')"""
    cfgs = {}

    def base(enc):
        return D("DW_TAG_base_type", [A("DW_AT_name", "DW_FORM_string", enc.encode()), A("DW_AT_byte_size", "DW_FORM_data1", 8), A("DW_AT_encoding", "DW_FORM_data1", ATE[enc])])

    for enc, interp in (("signed", "signed"), ("unsigned", "unsigned"), ("boolean", "bool"), ("signed_char", "signed"), ("unsigned_char", "unsigned"),
                        ("UTF", "unsigned"), ("address", "unsigned"), ("float", "unint")):
        def mk(enc=enc):
            b = base(enc)
            return b, [b]
        cfgs[enc] = (mk, interp)

    def ptr():
        b = base("signed")
        p = D("DW_TAG_pointer_type", [A("DW_AT_type", "DW_FORM_ref4", b)])
        return p, [b, p]
    cfgs["pointer"] = (ptr, "address")
    # typedef / cv / enumeration chains, composed: P* [enumeration Q*] base, and P+ over an enumeration without underlying type
    cv = ["typedef", "const_type", "volatile_type"]
    seqs = [()] + [(a,) for a in cv]
    if DEEP_CHAINS:
        seqs += [(a, b) for a in cv for b in cv]
    seqs_long = seqs + [("const_type", "typedef"), ("volatile_type", "const_type", "typedef")] * (not DEEP_CHAINS)

    def wrap(cur, extra, tags):
        for t in reversed(tags):
            cur = D("DW_TAG_" + t, [A("DW_AT_name", "DW_FORM_string", b"w")] * (t == "typedef") + [A("DW_AT_type", "DW_FORM_ref4", cur)])
            extra.append(cur)
        return cur

    def short(tags):
        return "".join({"typedef": "t", "const_type": "c", "volatile_type": "v"}[t] for t in tags)

    for enc, interp in (("signed", "signed"), ("unsigned", "unsigned")):
        for P in seqs_long:
            if P:
                def chain(P=P, enc=enc):
                    b = base(enc)
                    extra = [b]
                    return wrap(b, extra, P), extra
                cfgs["chain_%s_%s" % (short(P), enc)] = (chain, interp)
        for P in seqs:
            for Q in seqs:
                def enum_with(P=P, Q=Q, enc=enc):
                    b = base(enc)
                    extra = [b]
                    under = wrap(b, extra, Q)
                    e = D("DW_TAG_enumeration_type", [A("DW_AT_name", "DW_FORM_string", b"E"), A("DW_AT_type", "DW_FORM_ref4", under)],
                          [D("DW_TAG_enumerator", [A("DW_AT_name", "DW_FORM_string", b"e0"), A("DW_AT_const_value", "DW_FORM_data1", 0)])])
                    extra.append(e)
                    return wrap(e, extra, P), extra
                cfgs["%senum_under_%s_%s" % (short(P) + "_" if P else "", short(Q), enc)] = (enum_with, interp)
    for kind in ("sdata", "udata", "mixed"):
        for P in seqs:
            def enum_wo(kind=kind, P=P):
                forms = {"sdata": ["DW_FORM_sdata", "DW_FORM_sdata"], "udata": ["DW_FORM_udata", "DW_FORM_udata"], "mixed": ["DW_FORM_sdata", "DW_FORM_udata"]}[kind]
                e = D("DW_TAG_enumeration_type", [A("DW_AT_name", "DW_FORM_string", b"F")],
                      [D("DW_TAG_enumerator", [A("DW_AT_name", "DW_FORM_string", b"f%d" % i), A("DW_AT_const_value", f, 1)]) for i, f in enumerate(forms)])
                extra = [e]
                return wrap(e, extra, P), extra
            cfgs["%senum_%s" % (short(P) + "_" if P else "", kind)] = (enum_wo, ("enum", kind))
    cfgs["notype"] = (lambda: (None, []), "unint")
    return cfgs


def const_value_forms(version):
    f = [("DW_FORM_data1", 1), ("DW_FORM_data2", 2), ("DW_FORM_data4", 4), ("DW_FORM_data8", 8), ("DW_FORM_sdata", None), ("DW_FORM_udata", None),
         ("block1", 1), ("block2", 2), ("block4", 4), ("block8", 8), ("block3", 3)]
    if version >= 5:
        f.append(("DW_FORM_implicit_const", None))
    return f


def boundary(n):
    return [0, 1, (1 << (8 * n - 1)) - 1, 1 << (8 * n - 1), (1 << (8 * n)) - 1]


def expect_const_value(form, width, raw, interp):
    """raw = stored bit pattern (fixed-size forms) or number (LEB forms).  Returns canonical result or 'unint'."""
    if form == "DW_FORM_sdata":
        return cst("dec", raw)
    if form == "DW_FORM_udata":
        return cst("dec", raw)
    if form == "DW_FORM_implicit_const":
        # a signed LEB128 in the abbreviation: interpreted through the type like fixed data of 8 bytes
        width = 8
        raw &= (1 << 64) - 1
    if width not in (1, 2, 4, 8):
        return "bytes"
    if interp == "signed":
        return cst("dec", sext(raw, width))
    if interp == "unsigned":
        return cst("dec", raw)
    if interp == "bool":
        return cst("bool", raw)
    if interp == "address":
        return cst("Dwarf_Address", raw)
    if isinstance(interp, tuple):
        if interp[1] == "sdata":
            return cst("dec", sext(raw, width))
        if interp[1] == "udata":
            return cst("dec", raw)
        if sext(raw, 8 if width == 8 else width) == raw and (raw >> 63) == 0:
            return cst("dec", raw)
        return "ambiguous"      # tool documents a diagnostic here
    return "unint"


def build_file(version, shard=(0, 1)):
    """Shard k of m holds every m-th type configuration of part A; the other parts live in shard 0."""
    cases, top = [], []
    cfgs = type_configs(version)
    n = 0
    # ---- A
    for ci, (cname, (mk, interp)) in enumerate(cfgs.items()):
        if ci % shard[1] != shard[0]:
            continue
        for form, width in const_value_forms(version):
            if form == "DW_FORM_sdata":
                vals = [0, 1, -1, -(1 << 63), (1 << 63) - 1]
            elif form == "DW_FORM_udata":
                vals = [0, 1, (1 << 63), (1 << 64) - 1]
            elif form == "DW_FORM_implicit_const":
                vals = [0, 1, -1, -(1 << 63), (1 << 63) - 1]
            else:
                vals = boundary(width)
            for v in vals:
                for tag in ("DW_TAG_variable", "DW_TAG_template_value_parameter", "DW_TAG_enumerator"):
                    if tag == "DW_TAG_enumerator" and not cname.startswith("enum"):
                        continue
                    if tag != "DW_TAG_enumerator" and n % 3 and tag == "DW_TAG_template_value_parameter":
                        pass
                    tdie, extra = mk()
                    top += extra
                    if form.startswith("block"):
                        a = A("DW_AT_const_value", "DW_FORM_block1", v.to_bytes(width, "little"))
                        eform = "block"
                    else:
                        a = A("DW_AT_const_value", form, v)
                        eform = form
                    nm = A("DW_AT_name", "DW_FORM_string", b"c%d" % n)
                    n += 1
                    if tag == "DW_TAG_enumerator":
                        die = D(tag, [nm, a])
                        tdie.children.append(die)
                        if isinstance(interp, tuple):
                            # the new enumerator's own form takes part in the enumerators' vote
                            kinds = set()
                            for c in tdie.children:
                                for at in c.attrs:
                                    if g.cst(at.name) == g.DW["DW_AT_const_value"]:
                                        if g.cst(at.form) == g.DW["DW_FORM_sdata"]:
                                            kinds.add("sdata")
                                        elif g.cst(at.form) == g.DW["DW_FORM_udata"]:
                                            kinds.add("udata")
                            ei = ("enum", "mixed" if len(kinds) != 1 else kinds.pop())
                        else:
                            ei = interp
                    else:
                        attrs = [nm] + ([A("DW_AT_type", "DW_FORM_ref4", tdie)] if tdie is not None else []) + [a]
                        die = D(tag, attrs)
                        top.append(die)
                        ei = interp
                    exp = expect_const_value(eform if eform != "block" else "block", width, v, ei)
                    if tag == "DW_TAG_enumerator" and isinstance(ei, tuple) and exp not in ("bytes",) and eform not in ("DW_FORM_sdata", "DW_FORM_udata"):
                        # an enumerator of an enumeration without underlying type: the tool cannot know and says so
                        exp = "ambiguous"
                    if eform == "block" and exp in ("unint", "ambiguous"):
                        exp = "bytes"       # for block forms the faithful raw bytes are an acceptable report
                    cases.append(Case(die, "@AT_const_value", exp, "const_value %s=%#x on %s with type config %s" % (form, v & ((1 << 64) - 1), tag[7:], cname),
                                      is_block=(eform == "block")))
    # ---- B
    mark = (len(cases), list(top))

    def simple(attr, form, value, exp, what, tag="DW_TAG_variable"):
        die = D(tag, ([] if attr == "DW_AT_name" else [A("DW_AT_name", "DW_FORM_string", b"b%d" % len(cases))]) + [A(attr, form, value)])
        top.append(die)
        cases.append(Case(die, LOUSER_Q if attr == "DW_AT_lo_user" else "@" + attr[3:], exp, what))

    # (DW_FORM_sdata holding a non-negative number is valid for these attributes too: the attribute decides, not the form)
    forms_u = ["DW_FORM_data1", "DW_FORM_data2", "DW_FORM_data4", "DW_FORM_data8", "DW_FORM_udata", "DW_FORM_sdata"] + (["DW_FORM_implicit_const"] if version >= 5 else [])
    for at, (dom, vals) in ENUM_DOMS.items():
        for form in forms_u:
            for v in vals:
                if form == "DW_FORM_data1" and v > 255:
                    continue
                simple(at, form, v, cst(dom, v), "%s %s=%#x must be a %s* constant" % (at, form, v, dom))
    for at in UNSIGNED_ATS:
        for form in forms_u[:4]:
            w = WIDTH[form]
            for v in (0, (1 << (8 * w - 1)), (1 << (8 * w)) - 1):
                simple(at, form, v, cst("dec", v), "%s %s=%#x is an unsigned number" % (at, form, v))
        simple(at, "DW_FORM_udata", (1 << 64) - 1, cst("dec", (1 << 64) - 1), "%s udata max" % at)
    for at in SIGNED_ATS:
        for form in forms_u[:4]:
            w = WIDTH[form]
            for v in (1, (1 << (8 * w)) - 1, 1 << (8 * w - 1)):
                simple(at, form, v, cst("dec", sext(v, w)), "%s %s=%#x is a signed number" % (at, form, v))
        simple(at, "DW_FORM_sdata", -5, cst("dec", -5), "%s sdata" % at)
    for form in forms_u[:3]:
        simple("DW_AT_decl_line", form, 77, cst("line_number", 77), "decl_line is a line number")
        simple("DW_AT_call_line", form, 78, cst("line_number", 78), "call_line is a line number", tag="DW_TAG_inlined_subroutine")
        simple("DW_AT_decl_column", form, 9, cst("column_number", 9), "decl_column is a column number")
    simple("DW_AT_low_pc", "DW_FORM_addr", 0xffffffffffffffff, cst("Dwarf_Address", (1 << 64) - 1), "addr form is a hexadecimal address")
    simple("DW_AT_low_pc", "DW_FORM_addr", 0x1000, cst("Dwarf_Address", 0x1000), "addr form is a hexadecimal address")
    simple("DW_AT_external", "DW_FORM_flag", 1, cst("bool", 1), "flag is a boolean")
    simple("DW_AT_external", "DW_FORM_flag", 0, cst("bool", 0), "flag is a boolean")
    if version >= 4:
        simple("DW_AT_external", "DW_FORM_flag_present", None, cst("bool", 1), "flag_present is true")
    simple("DW_AT_name", "DW_FORM_strp", b"pooled \xff\x01 str", "s:x%s@0" % b"pooled \xff\x01 str".hex(), "strp string byte for byte")
    simple("DW_AT_producer", "DW_FORM_string", b"", "s:x@0", "empty string")
    simple("DW_AT_lo_user", "DW_FORM_data2", 0xfffe, cst("dec", 0xfffe), "vendor attribute with data form: unsigned number")
    simple("DW_AT_lo_user", "DW_FORM_block1", b"\x01\xff", "[c:hex:1@0,c:hex:255@0]@0", "vendor attribute with block form: the bytes")
    simple("DW_AT_discr_value", "DW_FORM_data1", 3, "unint", "discr_value: signedness not handled, must be reported")
    simple("DW_AT_byte_size", "DW_FORM_sdata", -1, cst("dec", -1), "sdata is signed whatever the attribute")
    # references
    tgt = D("DW_TAG_base_type", [A("DW_AT_name", "DW_FORM_string", b"tgt")])
    first = [tgt]       # near the start of the unit: ref1/ref2 are unit-relative and narrow
    for form in ("DW_FORM_ref1", "DW_FORM_ref2", "DW_FORM_ref4", "DW_FORM_ref8", "DW_FORM_ref_udata", "DW_FORM_ref_addr"):
        die = D("DW_TAG_variable", [A("DW_AT_name", "DW_FORM_string", b"r"), A("DW_AT_type", form, tgt)])
        first.append(die)
        cases.append(Case(die, "@AT_type", ("die", tgt), "reference form %s yields the DIE it points to" % form))
    top[:0] = first
    # location expressions
    locform = "DW_FORM_exprloc" if version >= 4 else "DW_FORM_block1"
    for at in ("DW_AT_location", "DW_AT_data_member_location", "DW_AT_frame_base"):
        die = D("DW_TAG_variable", [A("DW_AT_name", "DW_FORM_string", b"l"), A(at, locform, [("DW_OP_addr", 0x10), ("DW_OP_deref",)])])
        top.append(die)
        cases.append(Case(die, "@" + at[3:], "LE:0:ffffffffffffffff:2@0", "%s as a single expression covers all addresses" % at))
    if shard[0] != 0:
        del cases[mark[0]:]
        top[:] = mark[1]
    # ---- C: file names through line tables, own and integrated across units
    ptr = g.secptr_form(version, 4)
    if version >= 5:
        lt1 = g.LineTable([b"/src", b"/inc"], [(b"a.c", 0), (b"a.c", 0), (b"one.h", 1)])
        lt2 = g.LineTable([b"/src", b"/other"], [(b"b.c", 0), (b"b.c", 0), (b"two.h", 1)])
        i1, i2 = 2, 2
    else:
        lt1 = g.LineTable([b"/inc"], [(b"a.c", 0), (b"one.h", 1)])
        lt2 = g.LineTable([b"/other"], [(b"b.c", 0), (b"two.h", 1)])
        i1, i2 = 2, 2
    # unit 2 holds declarations with decl_file; unit 1 DIEs reach them in one and two hops
    decl2 = D("DW_TAG_subprogram", [A("DW_AT_name", "DW_FORM_string", b"far"), A("DW_AT_decl_file", "DW_FORM_data1", i2), A("DW_AT_declaration", "DW_FORM_flag", 1)])
    mid2 = D("DW_TAG_subprogram", [A("DW_AT_specification", "DW_FORM_ref4", decl2)])
    own = D("DW_TAG_variable", [A("DW_AT_name", "DW_FORM_string", b"own"), A("DW_AT_decl_file", "DW_FORM_data1", i1)])
    hop1 = D("DW_TAG_subprogram", [A("DW_AT_abstract_origin", "DW_FORM_ref_addr", decl2)])
    hop2 = D("DW_TAG_subprogram", [A("DW_AT_abstract_origin", "DW_FORM_ref_addr", mid2)])
    call = D("DW_TAG_inlined_subroutine", [A("DW_AT_name", "DW_FORM_string", b"call"), A("DW_AT_call_file", "DW_FORM_data2", i1)])
    cases.append(Case(own, "@AT_decl_file", "s:x%s@0" % b"/inc/one.h".hex(), "decl_file through the unit's own file table"))
    cases.append(Case(call, "@AT_call_file", "s:x%s@0" % b"/inc/one.h".hex(), "call_file through the unit's own file table"))
    cases.append(Case(hop1, "@AT_decl_file", "s:x%s@0" % b"/other/two.h".hex(), "decl_file integrated over one hop into another unit: that unit's file table"))
    cases.append(Case(hop2, "@AT_decl_file", "s:x%s@0" % b"/other/two.h".hex(), "decl_file integrated over two hops into another unit: the file table of the unit that stores it"))
    top += [own, hop1, hop2, call]
    cu1 = g.cu_root(b"a.c", comp_dir=b"/src", version=version, attrs=[A("DW_AT_stmt_list", ptr, lt1)], children=top)
    cu2 = g.cu_root(b"b.c", comp_dir=b"/src", version=version, attrs=[A("DW_AT_stmt_list", ptr, lt2)], children=[decl2, mid2])
    return g.ElfFile([g.Unit(cu1, version, 4), g.Unit(cu2, version, 4)]), cases


LOUSER_Q = "attribute ?(label value == 8192) value"
QUERIES = sorted({LOUSER_Q, "@AT_const_value", "@AT_type", "@AT_decl_file", "@AT_call_file", "@AT_location", "@AT_data_member_location", "@AT_frame_base", "@AT_name", "@AT_producer",
                  "@AT_discr_value", "@AT_low_pc", "@AT_external", "@AT_decl_line", "@AT_call_line", "@AT_decl_column"}
                 | {"@" + a[3:] for a in list(ENUM_DOMS) + UNSIGNED_ATS + SIGNED_ATS})
def qid_of(q):
    return "lo_user" if q == LOUSER_Q else q[1:]


BAT = Battery({qid_of(q): (q, "entry") for q in QUERIES})


def judge(case, results, err, stderr_text):
    exp = case.expect
    vals = [r.split(" ")[-1] for r in results]
    if isinstance(exp, tuple) and exp[0] == "die":
        want = "D:f1:%x:c:@0" % exp[1].offset
        return None if vals == [want] else "yields %r, expected the DIE %s" % (vals, want)
    if exp in ("unint", "ambiguous"):
        if err is not None or (not vals and stderr_text):
            return None
        if exp == "ambiguous" and vals and stderr_text:
            return None
        return "yields %r without any error or diagnostic: a combination the tool does not interpret must be reported" % vals
    if exp == "bytes":
        if vals and vals[0].startswith("[") or err is not None:
            return None
        return "yields %r, expected the raw bytes or an error" % vals
    if case.is_block and (err is not None or (vals and vals[0].startswith("["))):
        return None         # a block the tool declines to interpret as a number: reported, or shown as its bytes
    if err is not None:
        return "fails with `%s`, expected %s" % (drv.unhx(err).decode("latin-1"), exp)
    return None if vals == [exp] else "yields %r, stored value decodes to %s" % (vals, exp)


def run_version(d, version, shard=(0, 1)):
    os.makedirs(dwbattery.DWDIR, exist_ok=True)
    path = os.path.join(dwbattery.DWDIR, "c07-%d-%d.o" % (os.getpid(), version))
    elf, cases = build_file(version, shard)
    elf.write(path)
    BAT.install(d)
    by_off = {}
    for c in cases:
        by_off.setdefault(c.die.offset, []).append(c)
    rs = d.batch(["open id=d1 path=" + drv.hx(path)] + BAT.cmds(lim=50) + ["close id=d1"])
    bad, n = [], 0
    if not rs[0].lines or not rs[0].lines[0].startswith("ok"):
        return 0, [("open:v%d" % version, "cannot open generated file: %r" % rs[0].lines)]
    for (qid, (q, p)), r in zip(BAT.items.items(), rs[1:-1]):
        if r.crash:
            bad.append(("crash:v%d:%s" % (version, q), "`entry %s` died on the generated file: %s %s" % (q, r.crash[0], r.crash[1][-500:])))
            d.batch(["open id=d1 path=" + drv.hx(path)])
            continue
        cur, groups = None, {}
        for l in r.lines:
            if l.startswith("g "):
                cur = int(l.split(":")[2], 16)
                groups[cur] = {"res": [], "err": None}
            elif cur is not None and l.startswith("r "):
                groups[cur]["res"].append(l[2:])
            elif cur is not None and l.startswith("e "):
                groups[cur]["err"] = l[2:]
        for off, cl in by_off.items():
            for c in cl:
                if c.query != q:
                    continue
                n += 1
                grp = groups.get(off)
                if grp is None:
                    bad.append(("case:v%d:%s" % (version, c.what), "DWARF %d, %s: the DIE was not visited" % (version, c.what)))
                    continue
                why = judge(c, grp["res"], grp["err"], r.stderr)
                if why:
                    bad.append(("case:v%d:%s" % (version, c.what), "DWARF %d, %s: `%s` %s" % (version, c.what, q, why)))
    try:
        os.unlink(path)
    except OSError:
        pass
    return n, bad


def _worker(d, chunk, extra):
    out = {"cases": 0, "bad": []}
    global DEEP_CHAINS
    DEEP_CHAINS = extra["deep"]
    for v, k, m in chunk:
        n, bad = run_version(d, v, (k, m))
        out["cases"] += n
        out["bad"] += [(key, w, {"version": v, "shard": [k, m], "deep": DEEP_CHAINS, "key": key}) for key, w in bad]
    return out


def replay(case):
    ctx = common.Ctx("C07", "quick")
    d = drv.Drv(ctx.bin("zwdrv"), "full", timeout=120, cmd_timeout=60)
    try:
        global DEEP_CHAINS
        DEEP_CHAINS = case.get("deep", False)
        _, bad = run_version(d, case["version"], tuple(case.get("shard", (0, 1))))
        return any(k == case["key"] for k, _ in bad)
    finally:
        d.close()


def main(ctx):
    bins = ctx.build(["zwdrv"])
    global DEEP_CHAINS
    DEEP_CHAINS = ctx.tier == "thorough"
    versions = [2, 3, 4, 5]
    m = 16 if DEEP_CHAINS else 4
    for r in common.pmap(ctx, _worker, [[(v, k, m)] for k in range(m) for v in versions], bins["zwdrv"], "full", extra={"deep": DEEP_CHAINS},
                         timeout=300, cmd_timeout=120):
        ctx.count("cases", r["cases"])
        for key, what, case in r["bad"]:
            ctx.violation(key, what, case)
    ctx.sample({"case": "DW_AT_const_value DW_FORM_data2=0x8000 on an enumerator whose enumeration has a signed underlying type", "expect": "c:dec:-32768"})
    ctx.sample({"case": "DW_AT_language DW_FORM_data2=0x21", "expect": "c:DW_LANG_:33"})
    n = ctx.counts.get("cases", 0)
    cov = {
        "states": n, "transitions": n, "traces_validated_against_impl": n, "evaluations": n, "distinct_nontrivial": n,
        "rule": "state = one (attribute, form, type configuration, boundary value) combination stored in a generated file and decoded by `@AT_x` on the engine; "
                "compared with the decoding table of the property statement; distinct = distinct combination",
        "bounds": {"versions": versions, "type_configurations": list(type_configs(5)),
                   "type_chain_grammar": "P* [enumeration Q*] base and P+ over an enumeration without underlying type; P, Q sequences of typedef/const/volatile of length <= %d" % (2 if DEEP_CHAINS else 1), "const_value_forms": [f for f, _ in const_value_forms(5)],
                   "enumerated_attributes": list(ENUM_DOMS), "unsigned_attributes": UNSIGNED_ATS, "signed_attributes": SIGNED_ATS},
    }
    return ctx.finish("model_checking", cov, [
        "the decoding table implemented by this check is the property statement: form-implied signedness for sdata/udata, type-implied for fixed data and blocks, "
        "named constants for enumerated attributes, hexadecimal addresses; uninterpreted combinations must produce an error, a diagnostic or the raw bytes",
        "compiler-produced objects are not part of this check (C05/C06 law queries cover the repository's samples)",
    ], replay)
