"""C19 - the command line honours its grep-like contract.

Enumerates every subset of {-q -s -c -H -h} x a query pool (0 / 1 / 3 results,
2-slot stacks, compile error, run-time error after 0 / 1 / 2 results, soft
error only) x query channel (-e, -f file, -f -, positional) x file lists of
length 0-2 (0-3 thorough) over {valid1, valid2, missing, non-ELF} x argument
sets (-a / --a yielding 0-2 values).  Oracle: a contract table computed from
the LIBRARY driver's results for the same query and input stack: exit status,
empty stdout under -q, count lines, row-major order, header text, channel
equivalence, -a X = --a '"X"', stderr-only diagnostics, -s.
"""
import itertools, json, os, subprocess, multiprocessing
import common, drv

V1, V2 = "/repo/tests/typedef.o", "/repo/tests/enum.o"
MISSING = "/verif/.build/dw/c19-no-such-file.o"
NONELF = "/verif/DESIGN.md"
FLAGS = ["-q", "-s", "-c", "-H", "-h"]
SIXDROPS = "drop drop drop drop drop drop drop"

QUERIES = {
    "none": "!()",
    "one": "7",
    "three": '(1, 0x10, "s")',
    "two_slot": "8 9",
    "compile_error": "(",
    "rt_error_0": "(%s, 1, 2)" % SIXDROPS,
    "rt_error_1": "(1, %s, 2)" % SIXDROPS,
    "rt_error_2": "(1, 2, %s)" % SIXDROPS,
    "soft_error": "(1, 1 0 div, 2)",
    "uses_args": "(|X| X)",
    # results that depend on the input: some combinations yield, others (the first, the last) do not
    "arg_is_1": "?(1 ?eq) 5",
    "arg_is_2": "?(2 ?eq) 5",
    "file_has_enum": "?([entry ?TAG_enumeration_type] length 0 ?gt) 6",
    # the position of the value on top: a file's Dwarf counts among the files that opened, an argument's value among its values
    "pos_of_top": "pos",
    # the empty program is a query too (yields its input once), through every channel
    "empty": "",
}
ARGSETS = {
    "none": [],
    "a_X": [("-a", "X")],
    "aa_X": [("--a", '"X"')],
    "aa_two": [("--a", "(1, 2)")],
    "a_and_two": [("-a", "Y"), ("--a", "(3, 4)")],
    "aa_empty": [("--a", "!()")],
    "aa_two_two": [("--a", "(1, 2)"), ("--a", "(5, 6)")],
}


def file_lists(thorough):
    fs = [V1, V2, MISSING, NONELF]
    out = [[]] + [[f] for f in fs] + [[V1, V2], [V2, V1], [V1, MISSING], [MISSING, V1], [MISSING, NONELF], [V1, V1], [NONELF, V2]]
    if thorough:
        out += [[V1, MISSING, V2], [V1, V2, V1], [MISSING, NONELF, MISSING], [NONELF, V1, V2]]
    return out


def arg_values(d, kind, text):
    """Values an argument contributes: list of (canonical value, header text or None)"""
    if kind == "-a":
        return [("s:x%s" % text.encode().hex(), text)]
    r = d.run(text, lim=20)
    vals = []
    for res in r.results():
        vals.append((res.split(" ")[-1].rsplit("@", 1)[0], None))
    return vals


def render_value(canon, files_by_fid):
    """CLI `full` rendering of a simple value."""
    c = canon.rsplit("@", 1)[0]
    if c.startswith("c:dec:") or c.startswith("c:pos:"):
        return c[6:].encode()
    if c.startswith("c:hex:"):
        v = int(c[6:])
        return (("-" if v < 0 else "") + hex(abs(v))).encode()
    if c.startswith("s:x"):
        return bytes.fromhex(c[3:])
    if c.startswith("W:f"):
        fid = int(c.split(":")[1][1:])
        return b'<Dwarf "' + files_by_fid[fid].encode() + b'">'
    raise ValueError(canon)


class Expect:
    pass


def expectation(d, query, files, argset, flags, openable):
    """Contract for one invocation.  d: library driver (full vocabulary) with V1, V2 opened as d1, d2."""
    q, s, c, H, h = (f in flags for f in FLAGS)
    valid = [f for f in files if f in openable]
    bad_files = [f for f in files if f not in openable]
    e = Expect()
    e.status_q_nonzero = False
    e.stderr_must_mention = [] if s else list(bad_files)
    # compile errors of the query or of an argument
    probe = d.run(query, lim=1)
    args = []
    arg_error = False
    for kind, text in argset:
        if kind == "--a" and d.run(text, lim=1).has("qerr"):
            arg_error = True
        args.append(arg_values(d, kind, text))
    if probe.has("qerr") or arg_error:
        e.stderr_must_mention = []      # the query is compiled before any file is opened
        e.status, e.stdout = 2, b""
        e.diag = True
        return e
    if files and not valid:
        e.status, e.stdout, e.diag = 1, b"", False
        return e
    fid = {V1: 1, V2: 2}
    dims = []
    if files:
        dims.append([("W:f%d:c" % fid[f], f) for f in valid])
    dims += args
    if any(len(x) == 0 for x in dims):
        # an argument that yields nothing: no combination to run the query on
        e.status, e.stdout, e.diag = 1, b"", False
        e.zero_iterations = True
        return e
    niter = 1
    for x in dims:
        niter *= len(x)
    with_header = (niter > 1 or H) and not h
    out, any_result, any_error = b"", False, False
    for combo_index, combo in enumerate(itertools.product(*dims)):
        init = ",".join("d%d" % fid[f] for (_, f) in combo[:1] if files) if files else "-"
        rest = combo[1:] if files else combo
        prefix = " ".join(lit(v) for v, _ in rest)
        r = d.run(query, p=prefix if prefix else "", i=init if files else None, lim=50)
        res, err = [], None
        for l in r.lines:
            if l.startswith("r "):
                res.append(l[2:])
            elif l.startswith("e "):
                err = l[2:]
        if query == "pos" and files and len(dims) == 1 and err is None:
            # the library driver builds its input stack itself (the Dwarf at position 0); on the command line a file's
            # Dwarf is the k-th of the files that opened: unopenable files are skipped, so they do not count
            res = ["c:pos:%d" % combo_index]
        parts = []
        for k, (v, txt) in enumerate(combo):
            if (k == 0 and files) or len(dims[k]) > 1:
                parts.append(txt.encode() if txt is not None else render_value(v, {1: V1, 2: V2}))
        header = b",".join(parts) if parts else b"<no-file>"
        if res:
            any_result = True
        if err is not None:
            any_error = True
        if c:
            if err is None:
                out += (header + b":" if with_header else b"") + b"%d\n" % len(res)
        else:
            for st in res:
                vals = [] if st == "-" else st.split(" ")     # "-" = the empty stack: a result, nothing to print for it
                if with_header:
                    out += header + b":\n"
                if len(vals) > 1:
                    out += b"---\n"
                for v in reversed(vals):
                    out += render_value(v, {1: V1, 2: V2}) + b"\n"
    e.diag = any_error
    if q:
        e.stdout = b""
        e.status = 0 if any_result else (2 if any_error else 1)
        e.status_q_nonzero = True
    else:
        e.stdout = out
        e.status = 2 if any_error else (0 if any_result else 1)
    return e


def lit(canon):
    c = canon.rsplit("@", 1)[0]
    if c.startswith("c:dec:"):
        return c[6:]
    if c.startswith("s:x"):
        return '"' + "".join("\\x%02x" % b for b in bytes.fromhex(c[3:])) + '"'
    raise ValueError(canon)


def invoke(cli, query, channel, files, argset, flags, tmpdir):
    cmd = [cli] + list(flags)
    for kind, text in argset:
        cmd += [kind, text]
    stdin = None
    if channel == "-e":
        cmd += ["-e", query] + files
    elif channel == "-f":
        p = os.path.join(tmpdir, "q-%d.zw" % os.getpid())
        with open(p, "w") as f:
            f.write(query)
        cmd += ["-f", p] + files
    elif channel == "-f-":
        cmd += ["-f", "-"] + files
        stdin = query.encode()
    else:
        cmd += ["--", query] + files if query.startswith("-") else [query] + files
    env = dict(os.environ, ASAN_OPTIONS="detect_leaks=0:abort_on_error=0", UBSAN_OPTIONS="halt_on_error=1", LC_ALL="C")
    try:
        p = subprocess.run(cmd, input=stdin if stdin is not None else b"", stdout=subprocess.PIPE, stderr=subprocess.PIPE, env=env, timeout=60)
        return p.returncode, p.stdout, p.stderr
    except subprocess.TimeoutExpired:
        return "timeout", b"", b""


def judge(exp, rc, out, err, flags, files):
    probs = []
    if "-q" in flags and exp.status != 0 and exp.status_q_nonzero:
        # under -q the contract only says: 0 exactly when some result exists
        if rc not in (1, 2):
            probs.append("exit status %s, contract says non-zero (1 or 2)" % (rc,))
    elif rc != exp.status:
        probs.append("exit status %s, contract says %s" % (rc, exp.status))
    if out != exp.stdout:
        probs.append("stdout %r, contract says %r" % (out[:300], exp.stdout[:300]))
    for f in exp.stderr_must_mention:
        if f.encode() not in err:
            probs.append("unopenable file %s is not reported on stderr" % f)
    if "-s" in flags:
        for l in err.splitlines():
            if l.startswith(b"dwgrep: ") and exp.status != 2 or (l.startswith(b"dwgrep: /") and b": " in l[8:]):
                probs.append("-s given but the driver printed %r" % l[:120])
                break
    elif exp.diag and exp.status == 2 and not err.strip():
        probs.append("failure (status 2) without any message on stderr")
    if b"ERROR: AddressSanitizer" in err or b"runtime error:" in err:
        probs.append("sanitizer report: %r" % err[-400:])
    return probs


def _worker(task):
    (cli, zwdrv, cases, tmpdir) = task
    d = drv.Drv(zwdrv, "full", timeout=60)
    d.setup("open id=d1 path=" + drv.hx(V1))
    d.setup("open id=d2 path=" + drv.hx(V2))
    openable = {V1, V2}
    out = {"n": 0, "bad": [], "outcomes": {}}
    cache = {}
    for (qn, channel, files, an, flags) in cases:
        key = (qn, tuple(files), an, tuple(flags))
        if key not in cache:
            try:
                cache[key] = expectation(d, QUERIES[qn], files, ARGSETS[an], flags, openable)
            except Exception as ex:      # expectation machinery must not raise
                cache[key] = ex
        exp = cache[key]
        if isinstance(exp, Exception):
            out["bad"].append(("harness:%r" % (key,), "cannot compute the contract: %r" % exp, {"case": [qn, channel, files, an, flags]}))
            continue
        rc, so, se = invoke(cli, QUERIES[qn], channel, files, ARGSETS[an], flags, tmpdir)
        out["n"] += 1
        out["outcomes"][str(rc)] = out["outcomes"].get(str(rc), 0) + 1
        probs = judge(exp, rc, so, se, flags, files)
        if probs:
            argv = " ".join(flags) + " " + " ".join("%s '%s'" % a for a in ARGSETS[an]) + " %s '%s' " % (channel, QUERIES[qn]) + " ".join(os.path.basename(f) for f in files)
            ident = "zero-iterations" if getattr(exp, "zero_iterations", False) else json.dumps([qn, channel, [os.path.basename(f) for f in files], an, flags])
            out["bad"].append(("cli:" + ident, "dwgrep %s: %s; stderr %r" % (argv, "; ".join(probs), se[-300:]),
                               {"case": [qn, channel, files, an, flags]}))
    d.close()
    out["bad"] = out["bad"][:12]
    return out


def all_cases(thorough):
    n = 0
    chans = ["-e", "-f", "-f-", "pos"]
    for qn in QUERIES:
        for files in file_lists(thorough):
            for an in ARGSETS:
                if qn == "uses_args" and an == "none" and not files:
                    continue
                for k in range(32):
                    flags = [f for i, f in enumerate(FLAGS) if k >> i & 1]
                    if thorough:
                        for ch in chans:
                            yield (qn, ch, files, an, flags)
                    else:
                        yield (qn, chans[n % 4], files, an, flags)
                        n += 1


def replay(case):
    ctx = common.Ctx("C19", "quick")
    bins = ctx.build(["zwdrv", "dwgrep"])
    os.makedirs("/verif/.build/dw", exist_ok=True)
    qn, channel, files, an, flags = case["case"]
    r = _worker((bins["dwgrep"], bins["zwdrv"], [(qn, channel, files, an, flags)], "/verif/.build/dw"))
    return bool(r["bad"])


def main(ctx):
    thorough = ctx.tier == "thorough"
    bins = ctx.build(["zwdrv", "dwgrep"])
    fast = ctx.build(["dwgrep"], "fast")
    os.makedirs("/verif/.build/dw", exist_ok=True)
    cases = list(all_cases(thorough))
    # the sanitized CLI takes every 8th invocation (all of them in the thorough tier's first 20000), the plain build the rest
    san_cases = cases[::8]
    fast_cases = [c for i, c in enumerate(cases) if i % 8]
    tasks = [(bins["dwgrep"], bins["zwdrv"], san_cases[i::32], "/verif/.build/dw") for i in range(32)]
    tasks += [(fast["dwgrep"], bins["zwdrv"], fast_cases[i::96], "/verif/.build/dw") for i in range(96)]
    pool = multiprocessing.Pool(16)
    outcomes = {}
    try:
        for r in pool.imap_unordered(_worker, [t for t in tasks if t[2]]):
            ctx.count("invocations", r["n"])
            for k, v in r["outcomes"].items():
                outcomes[k] = outcomes.get(k, 0) + v
            for key, what, case in r["bad"]:
                ctx.violation(key, what, case)
            if ctx.expired():
                ctx.incomplete("deadline reached")
                break
    finally:
        pool.terminate()
        pool.join()
    ctx.sample({"argv": "dwgrep -c -H --a '(1, 2)' -e '(1, 0x10, \"s\")' typedef.o enum.o", "contract": "4 count lines `file,N:3` in row-major order, exit 0, empty stderr"})
    n = ctx.counts.get("invocations", 0)
    cov = {
        "states": n, "transitions": n, "traces_validated_against_impl": n, "evaluations": n, "distinct_nontrivial": n,
        "distinct_outcomes": outcomes,
        "rule": "state = one dwgrep invocation (flag subset x query x channel x file list x argument set); its exit status, stdout and stderr are compared with a contract "
                "computed from the library driver's results for the same query and inputs; distinct = distinct invocation",
        "bounds": {"flag_subsets": 32, "queries": list(QUERIES), "channels": "all four per case" if thorough else "rotated over the four", "file_lists": len(file_lists(thorough)),
                   "argument_sets": list(ARGSETS), "sanitized_share": "1/8 of the invocations run on the ASan/UBSan CLI build, the rest on the plain build"},
    }
    return ctx.finish("model_checking", cov, [
        "expected output text is rendered by this check from the library driver's canonical results for constants, strings and Dwarf values (the documented plain format)",
        "compile-error messages printed under -s are not judged (the documentation ties -s to error messages of the run)",
    ], replay)
