"""C03 - names resolve lexically: each read sees the binding of its own scope and input.

Enumerates binder programs: every binder form (let with one/two names,
(|A|..), (|A B|..), [|A|..], ?(|A|..), {|A|..}, {..} with up-values, blocks
bound to names and applied once/twice) nested to a depth bound, with reads
placed in every kind of sub-expression (capture, ?( ), infix operand, ALT/OR
branch, then/else arm, closure body, format splice, block body).  Ill-scoped
programs are included: the reference interpreter predicts the result multiset
or the compile-time error class (rebound / unbound).
"""
import ast as _ast, itertools
import common, drv, zwmodel
from zwgen import I, W, cat

NAMES = ["A", "B"]


def rd(n):
    return ("rd", n)


def atoms():
    return [("1", I(1)), ("12", ("alt", [I(1), I(2)])), ("A", rd("A")), ("B", rd("B")), ("A+1", cat(rd("A"), I(1), W("add")))]


def small(level):
    xs = [("1", I(1)), ("12", ("alt", [I(1), I(2)])), ("A", rd("A"))]
    return xs if level > 0 else xs[:2]


def binder_forms(full):
    """(name, fn(xs, body)) ; xs = small bound expression, body = nested program"""
    f = []
    for n in NAMES:
        m = "B" if n == "A" else "A"
        f.append(("par|%s|" % n, lambda xs, b, n=n: cat(xs, ("par", [n], b))))
        f.append(("let %s" % n, lambda xs, b, n=n: cat(("let", [n], xs), b)))
        f.append(("cap|%s|" % n, lambda xs, b, n=n: cat(xs, ("cap", [n], b), W("elem"))))
        f.append(("sub|%s|" % n, lambda xs, b, n=n: cat(xs, ("sub", True, [n], cat(b, I(1), W("?ge"))))))
        f.append(("blk|%s|" % n, lambda xs, b, n=n: cat(xs, ("block", [n], b), W("apply"))))
        f.append(("par|%s %s|" % (n, m), lambda xs, b, n=n, m=m: cat(xs, I(7), ("par", [n, m], b))))
        f.append(("rebind %s" % n, lambda xs, b, n=n: cat(("let", [n], xs), ("let", [n], I(5)), b)))
        f.append(("parenlet %s" % n, lambda xs, b, n=n: cat(("par", [], ("let", [n], xs)), b)))
        f.append(("sublet %s" % n, lambda xs, b, n=n: cat(("sub", True, [], ("let", [n], xs)), b)))
        f.append(("nsublet %s" % n, lambda xs, b, n=n: cat(("sub", False, [], cat(("let", [n], xs), ("sub", False, [], cat()))), b)))
        f.append(("altlet %s" % n, lambda xs, b, n=n: cat(("alt", [("let", [n], xs), ("let", [n], I(2))]), b)))
        f.append(("orlet %s" % n, lambda xs, b, n=n: cat(("or", [("let", [n], xs), ("let", [n], I(2))]), b)))
        f.append(("iflet %s" % n, lambda xs, b, n=n: cat(("if", I(1), ("let", [n], xs), cat()), b)))
        f.append(("caplet %s" % n, lambda xs, b, n=n: cat(("cap", [], cat(("let", [n], xs), rd(n))), W("drop"), b)))
        f.append(("optlet %s" % n, lambda xs, b, n=n: cat(("opt", ("let", [n], xs)), b)))
        f.append(("optguardlet %s" % n, lambda xs, b, n=n: cat(("opt", cat(("sub", False, [], cat()), ("let", [n], xs))), b)))
        f.append(("pluslet %s" % n, lambda xs, b, n=n: cat(I(0), ("plus", cat(("let", [n], xs), ("sub", False, [], cat()))), W("drop"), b)))
        f.append(("starlet %s" % n, lambda xs, b, n=n: cat(I(0), ("star", cat(("let", [n], xs), ("sub", False, [], cat()))), W("drop"), b)))
        f.append(("infixlet %s" % n, lambda xs, b, n=n: cat(("infix", "==", cat(("let", [n], xs), rd(n)), rd(n) if False else xs), b)))
        # an infix operand binds the name, the other operand reads it: each operand is a scope of its own
        f.append(("infixlet-other-reads %s" % n, lambda xs, b, n=n: cat(("infix", "!=", cat(("let", [n], I(9)), rd(n)), rd(n)), b)))
        f.append(("infixlet-other-reads-rev %s" % n, lambda xs, b, n=n: cat(("infix", "!=", rd(n), cat(("let", [n], I(9)), rd(n))), b)))
        f.append(("infixlet-both %s" % n, lambda xs, b, n=n: cat(("infix", "!=", cat(("let", [n], I(8)), rd(n)), cat(("let", [n], I(9)), rd(n))), b)))
        f.append(("blocklet %s" % n, lambda xs, b, n=n: cat(("block", [], ("let", [n], xs)), W("apply"), b)))
        f.append(("parbindlet %s" % n, lambda xs, b, n=n, m=m: cat(I(0), ("par", [m], ("let", [n], xs)), b)))
    f.append(("let A B", lambda xs, b: cat(("let", ["A", "B"], cat(xs, I(7))), b)))
    f.append(("let B A", lambda xs, b: cat(("let", ["B", "A"], cat(xs, I(7))), b)))
    f.append(("let F blk", lambda xs, b: cat(("let", ["F"], ("block", [], b)), rd("F"))))
    f.append(("let F blk twice", lambda xs, b: cat(("let", ["F"], ("block", [], b)), rd("F"), rd("F"), W("add"))))
    f.append(("blk apply", lambda xs, b: cat(("block", [], b), W("apply"))))
    f.append(("blk dup apply", lambda xs, b: cat(("block", [], b), W("dup"), W("apply"), W("swap"), W("apply"), W("add"))))
    f.append(("let A then blk reads later-bound B", lambda xs, b: cat(("let", ["A"], xs), ("let", ["F"], ("block", [], b)), ("let", ["B"], I(3)), rd("F"))))
    f.append(("blk 3 upvalues", lambda xs, b: cat(("let", ["A"], xs), ("let", ["B"], I(20)), ("let", ["C"], I(300)),
                                                   ("let", ["F"], ("block", [], cat(rd("C"), rd("A"), W("add"), rd("B"), W("add"), b, W("add")))), rd("F"))))
    f.append(("blk 3 upvalues rev", lambda xs, b: cat(("let", ["A"], xs), ("let", ["B"], I(20)), ("let", ["C"], I(300)),
                                                       ("let", ["F"], ("block", [], cat(rd("B"), rd("C"), W("sub"), rd("A"), W("mul"), b, W("add")))), rd("F"))))
    f.append(("nested blk", lambda xs, b: cat(("let", ["A"], xs), ("let", ["G"], ("block", [], cat(("let", ["B"], I(40)), ("block", [], cat(rd("A"), rd("B"), W("add"), b, W("add")))))),
                                               rd("G"), W("apply"))))
    return f


def context_forms():
    never = ("sub", False, [], cat())
    return [
        ("[X] elem", lambda b: cat(("cap", [], b), W("elem"))),
        ("9 ?(X)", lambda b: cat(I(9), ("sub", True, [], cat(b, I(0), W("?ge"))))),
        ("9 !(X)", lambda b: cat(I(9), ("sub", False, [], cat(b, I(0), W("?lt"))))),
        ("9 (X >= 0)", lambda b: cat(I(9), ("infix", ">=", b, I(0)))),
        ("9 (0 < X)", lambda b: cat(I(9), ("infix", "<", I(0), b))),
        ("(X, 3)", lambda b: ("alt", [b, I(3)])),
        ("(3, X)", lambda b: ("alt", [I(3), b])),
        ("(X || 3)", lambda b: ("or", [b, I(3)])),
        ("(!() || X)", lambda b: ("or", [never, b])),
        ("if 1 then X else 4", lambda b: ("if", I(1), b, I(4))),
        ("if !() then 4 else X", lambda b: ("if", never, I(4), b)),
        ("if X then 4 else 5", lambda b: ("if", b, I(4), I(5))),
        ("0 (?(< X) 1 add)*", lambda b: cat(I(0), ("star", cat(("sub", True, [], ("infix", "<", cat(), b)), I(1), W("add"))))),
        ("fmt", lambda b: cat(("fmt", [b"v", ("splice", b), b"w"]), W("length"))),
        ("(X)", lambda b: ("par", [], b)),
        ("X X add", lambda b: cat(b, b, W("add"))),
    ]


def programs(depth, full=True):
    """Yield (name, ast) for nesting depth `depth`."""
    level = {0: atoms()}
    bf, cf = binder_forms(full), context_forms()
    for d in range(1, depth + 1):
        cur = []
        prev = level[d - 1]
        thin = (d >= 3)
        for bn, f in bf:
            for xn, xs in (small(d)[:1] if thin else small(d)):
                for pn, p in prev:
                    cur.append(("%s{%s}(%s)" % (bn, xn, pn), f(xs, p)))
        for cn, f in cf:
            for pn, p in prev:
                cur.append(("%s(%s)" % (cn, pn), f(p)))
        level[d] = cur
    for d in range(0, depth + 1):
        for x in level[d]:
            yield x


def programs_wrapped(prev, level_no):
    """One more level of every binder and context form around the programs in PREV."""
    bf, cf = binder_forms(True), context_forms()
    for pn, p in prev:
        for bn, f in bf:
            for xn, xs in small(level_no)[:1]:
                yield "%s{%s}(%s)" % (bn, xn, pn), f(xs, p)
        for cn, f in cf:
            yield "%s(%s)" % (cn, pn), f(p)


def count_programs(depth):
    return sum(1 for _ in programs(depth))


# alpha-renaming onto names that are also vocabulary words (none of them is used as a word by this family): a binder
# shadows a builtin like any other outer binding, so a well-scoped program must not notice the renaming
RENAME = {"A": "pos", "B": "type", "C": "value", "F": "rot", "G": "over"}


def rename(t):
    if isinstance(t, tuple):
        if t and t[0] == "rd":
            return ("rd", RENAME.get(t[1], t[1]))
        if t and t[0] in ("par", "cap", "block", "let") and isinstance(t[1], list):
            return (t[0], [RENAME.get(n, n) for n in t[1]]) + tuple(rename(x) for x in t[2:])
        if t and t[0] == "sub":
            return (t[0], t[1], [RENAME.get(n, n) for n in t[2]]) + tuple(rename(x) for x in t[3:])
        return tuple(rename(x) for x in t)
    if isinstance(t, list):
        return [rename(x) for x in t]
    return t


def classify(msg):
    if "rebound" in msg:
        return "rebound"
    if "unbound name" in msg:
        return "unbound"
    return "other:" + msg[:60]


def judge(name, t, r, core_words, r2=None):
    bad, oc = judge1(name, t, r, core_words)
    if r2 is not None and not bad and not oc.startswith("err:") and oc != "crash":
        q2 = zwmodel.render(rename(t))
        if r2.crash:
            return [("prog:%s|renamed-crash" % q2, "`%s` (%s with binder names that are vocabulary words): driver died: %s %s" % (
                q2, name, r2.crash[0], r2.crash[1][-600:]), {"name": name, "ast": repr(t), "kind": "renamed"})], "renamed"
        if r2.lines != r.lines:
            return [("prog:%s|renamed" % q2, "`%s` yields %r, but `%s` (the same program with other binder names) yields %r" % (
                q2, r2.lines[:8], zwmodel.render(t), r.lines[:8]), {"name": name, "ast": repr(t), "kind": "renamed"})], "renamed"
    return bad, oc


def judge1(name, t, r, core_words):
    q = zwmodel.render(t)
    case = {"name": name, "ast": repr(t)}

    def v(kind, what):
        return [("prog:%s|%s" % (q, kind), "`%s` (%s): %s" % (q, name, what), dict(case, kind=kind))]

    if r.crash:
        return v("crash", "driver died: %s %s" % (r.crash[0], r.crash[1][-600:])), "crash"
    errs = zwmodel.static_errors(t, core_words)
    qerr = r.first("qerr")
    if errs:
        if qerr is None:
            return v("accepted", "ill-scoped program (%s) was compiled; engine output %r" % ("/".join(sorted(errs)), r.lines[:4])), "accepted"
        k = classify(drv.unhx(qerr).decode("latin-1"))
        if k not in errs:
            return v("wrongerror", "expected a %s error, got `%s`" % ("/".join(sorted(errs)), drv.unhx(qerr).decode("latin-1"))), "wrongerror"
        return [], "err:" + k
    if qerr is not None:
        return v("rejected", "well-scoped program was rejected: `%s`" % drv.unhx(qerr).decode("latin-1")), "rejected"
    try:
        exp, run = zwmodel.run(t, (), reach_cap=1000, step_cap=200000)
    except zwmodel.Unjudged as e:
        return [], "unjudged"
    except zwmodel.HardError as e:
        return [], "unjudged"
    if len(exp) >= 1400:
        return [], "unjudged"       # more results than the driver is asked to pull
    odd = [l for l in r.lines if not l.startswith("r ")]
    if odd:
        return v("odd", "unexpected engine output %r (model expects %d results)" % (odd[:3], len(exp))), "odd"
    got = r.results()
    verdict = zwmodel.compare(got, exp, run, q)
    if verdict == "unjudged":
        return [], "unjudged"
    if verdict == "bad":
        return v("result", "engine yields %r, lexical scoping gives %r (%s)" % (got, exp, "as multiset" if run.taint else "in order")), "result"
    if r.stderr:
        return v("stderr", "diagnostics on a well-formed program: %r" % r.stderr[:200]), "stderr"
    return [], "ok:%d" % len(got)


def _worker(d, task, extra):
    zwmodel.set_type_codes(extra["codes"])
    depth, k, m = task
    core_words = extra["core_words"]
    out = {"programs": 0, "bad": [], "outcomes": {}, "pulls": 0, "sample": None}
    pending = []

    def flush(n):
        rs = d.recv(2 * n)
        for i, (name, t) in enumerate(pending[:n]):
            r = rs[2 * i]
            bad, oc = judge(name, t, r, core_words, rs[2 * i + 1])
            out["programs"] += 1
            out["pulls"] += len(r.results()) + 1
            out["bad"] += bad
            out["outcomes"][oc] = out["outcomes"].get(oc, 0) + 1
            if out["sample"] is None and oc.startswith("ok:") and "blk" in name:
                out["sample"] = {"program": zwmodel.render(t), "results": r.results()}
        del pending[:n]

    if depth == 3:
        # depth 3 = one more level around a stride sample of the depth-2 programs (all of depth 2 is covered separately)
        base = list(itertools.islice(programs(2), k, None, m))
        src = programs_wrapped(base, 3)
    else:
        src = itertools.islice(programs(depth), k, None, m)
    for name, t in src:
        d.send([drv.run_cmd(zwmodel.render(t), lim=1500), drv.run_cmd(zwmodel.render(rename(t)), lim=1500)])
        pending.append((name, t))
        if len(pending) >= 40:
            flush(20)
    flush(len(pending))
    out["bad"] = out["bad"][:10]
    return out


def setup_info(binary):
    d = drv.Drv(binary, "core")
    codes = {}
    for t in ("T_CONST", "T_STR", "T_SEQ", "T_CLOSURE"):
        codes[t] = int(d.run(t).results()[0].split(":")[2].split("@")[0])
    words = set()
    for l in d.cmd("dumpvoc").lines:
        if l.startswith("w "):
            words.add(drv.unhx(l.split(" ")[1]).decode())
    d.close()
    return codes, words


def replay(case):
    ctx = common.Ctx("C03", "quick")
    b = ctx.bin("zwdrv")
    codes, words = setup_info(b)
    zwmodel.set_type_codes(codes)
    d = drv.Drv(b, "core")
    try:
        t = _ast.literal_eval(case["ast"])
        bad, _ = judge(case["name"], t, d.run(zwmodel.render(t), lim=1500), words, d.run(zwmodel.render(rename(t)), lim=1500))
        return bool(bad)
    finally:
        d.close()


def main(ctx):
    bins = ctx.build(["zwdrv"])
    codes, words = setup_info(bins["zwdrv"])
    assert all(w in words for w in RENAME.values()), "renaming targets must be vocabulary words"
    depth = 3 if ctx.tier == "thorough" else 2
    binary = bins["zwdrv"]
    parts = [(2, binary)]
    if depth == 3:
        parts = [(3, ctx.build(["zwdrv"], "fast")["zwdrv"])]
        parts.insert(0, (2, binary))
    outcomes = {}
    for dep, b in parts:
        m = 64 if dep == 2 else 2048
        # depth 3: every 8th depth-2 program is wrapped once more by every form
        tl = [(dep, k, m) for k in range(m)] if dep == 2 else [(dep, k, m) for k in range(0, m, 8)]
        for r in common.pmap(ctx, _worker, tl, b, "core", extra={"codes": codes, "core_words": words}, timeout=60):
            ctx.count("programs", r["programs"])
            ctx.count("programs_depth_%d" % dep, r["programs"])
            ctx.count("pulls", r["pulls"])
            for k, v in r["outcomes"].items():
                outcomes[k] = outcomes.get(k, 0) + v
            if r["sample"]:
                ctx.sample(r["sample"])
            for key, what, case in r["bad"]:
                ctx.violation(key, what, case)
    n = ctx.counts.get("programs", 0)
    cov = {
        "states": n,
        "transitions": ctx.counts.get("pulls", 0) + n,
        "traces_validated_against_impl": n - outcomes.get("unjudged", 0),
        "evaluations": n,
        "distinct_nontrivial": n,
        "distinct_outcomes": outcomes,
        "rule": "state = one binder program compiled and run to exhaustion on the empty stack; distinct = distinct program text; every program has at least "
                "one name read under at least one binder or context; outcomes: ok:<#results>, err:<class>, unjudged; every well-scoped program is also run "
                "with its binder names replaced by vocabulary words (%s) and must yield the identical output" % RENAME,
        "bounds": {"nesting_depth": depth, "binder_forms": [b[0] for b in binder_forms(True)], "context_forms": [c[0] for c in context_forms()],
                   "note": "depth 3 (thorough): every 8th depth-2 program wrapped once more by every binder and context form, on the non-sanitized engine"},
    }
    return ctx.finish("model_checking", cov, [
        "reference interpreter and its static scope analysis implement the 'Name binding' section of doc/syntax.rst (sub-expression contexts, ALT/OR branches, "
        "binder parentheses, then/else arms, blocks are scopes; plain parentheses are not)",
        "names bound inside format splices are not generated (documentation silent)",
    ], replay)
