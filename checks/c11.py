"""C11 - core words on integers, strings and sequences do what their documentation says.

(a) explicit-state BFS over the real `stack` class: the cached type profile
    (what overload dispatch looks at) equals a recomputation from the top
    slots in every reachable state (stack_harness).
(b) every core word x every operand tuple from a value pool x every way of
    bringing the operands to the top (depths 0-7, histories with drop / swap /
    rot / over / dup) run on the engine and compared with the list/bytes
    reference model, including positions, diagnostics for unsupported operand
    types, and equality of outcomes across histories.
"""
import ast as _ast, itertools, os, subprocess
import common, drv, zwmodel
import c03
from zwgen import I, W, cat

S = lambda b: ("str", b)


def seq(*items):
    if not items:
        return ("elist",)
    return ("cap", [], ("alt", list(items)) if len(items) > 1 else items[0])


def pool(tier):
    p = [
        ("0", I(0)), ("1", I(1)), ("-1", I(-1)), ("3", I(3)), ("0x10", I(16, "hex")), ("0o7", I(7, "oct")), ("0b101", I(5, "bin")),
        ("max", I((1 << 64) - 1, "hex")), ("min", I(-(1 << 63))), ("2^63", I(1 << 63)),
        ('""', S(b"")), ('"a"', S(b"a")), ('"ab"', S(b"ab")), ('"ba"', S(b"ba")), ('"aba"', S(b"aba")), ('"a\\0b"', S(b"a\0b")),
        ('"\\xff"', S(b"\xff")), ('"a*"', S(b"a*")), ('"("', S(b"(")), ('"^a$"', S(b"^a$")),
        ("[]", seq()), ("[1]", seq(I(1))), ("[1,2]", seq(I(1), I(2))), ("[2,1]", seq(I(2), I(1))), ("[1,2,1]", seq(I(1), I(2), I(1))),
        ("[[],1]", seq(seq(), I(1))), ('["a",[1]]', seq(S(b"a"), seq(I(1)))), ("[0x1]", seq(I(1, "hex"))),
        ("{1}", ("block", [], I(1))), ("true", W("true")),
    ]
    if tier == "thorough":
        p += [("2", I(2)), ("-0x10", I(-16, "hex")), ("2^63-1", I((1 << 63) - 1)), ("2^32", I(1 << 32)),
              ('"b"', S(b"b")), ('"abab"', S(b"abab")), ('"\\0"', S(b"\0")), ('"a|b"', S(b"a|b")), ('"[a"', S(b"[a")),
              ("[[1]]", seq(seq(I(1)))), ('["ab"]', seq(S(b"ab"))), ("[1,[2,1]]", seq(I(1), seq(I(2), I(1)))), ("T_STR", W("T_STR")),
              ("[5,6]elem", cat(seq(I(5), I(6)), W("elem"))), ('"xy"relem', cat(S(b"xy"), W("relem")))]
    return p


UNARY_WORDS = ["length", "elem", "relem", "?empty", "!empty", "value", "hex", "dec", "oct", "bin", "type", "pos", "?0", "!0", "?1", "!1",
               "dup", "drop", "apply"]
BINARY_WORDS = ["add", "sub", "mul", "div", "mod", "?find", "!find", "?starts", "!starts", "?ends", "!ends", "?match", "!match",
                "swap", "over", "?eq", "!eq", "?ne"]
TERNARY_WORDS = ["rot"]

FILL = {"c": I(7), "s": S(b"f"), "q": seq(I(7)), "m": None}


def fillers(k, kind):
    if kind == "m":
        cyc = [I(7), S(b"f"), seq(I(7)), ("block", [], I(2))]
        return [cyc[i % 4] for i in range(k)]
    return [FILL[kind]] * k


def histories(arity, tier):
    """Templates: lists of 'X','Y','Z' operand markers (Z deepest of three), ('F', n) fillers and words."""
    h = []
    if arity == 1:
        h = [["Y"], [("F", 1), "Y"], [("F", 3), "Y"], [("F", 4), "Y"], [("F", 6), "Y"],
             ["Y", ("F", 1), "drop"], [("F", 4), "Y", ("F", 1), "drop"], [("F", 1), "Y", "swap", "drop"],
             [("F", 3), "Y", ("F", 2), "drop", "drop"], ["Y", "dup", "drop"], [("F", 5), "drop", "drop", "Y"]]
    elif arity == 2:
        h = [["X", "Y"], [("F", 1), "X", "Y"], [("F", 2), "X", "Y"], [("F", 4), "X", "Y"], [("F", 5), "X", "Y"],
             ["X", "Y", ("F", 1), "drop"], ["Y", "X", "swap"], ["Y", ("F", 1), "X", "rot"], ["X", "dup", "drop", "Y"],
             ["X", "Y", "over", "drop"], [("F", 4), "X", "Y", ("F", 1), "drop"], [("F", 6), "drop", "drop", "X", "Y"],
             [("F", 3), "Y", "X", "swap"], [("F", 2), "X", ("F", 2), "drop", "drop", "Y"]]
    else:
        h = [["Z", "X", "Y"], [("F", 1), "Z", "X", "Y"], [("F", 4), "Z", "X", "Y"], ["Z", "X", "Y", ("F", 1), "drop"], [("F", 3), "Z", "X", "Y", ("F", 2), "drop", "drop"]]
    if tier != "thorough":
        h = h[:8] if arity < 3 else h[:3]
    # operands that have a live copy lower on the stack (made by dup / over): the word must leave the copy as it was;
    # operands that carry a non-zero position (third element of a sequence): every operation numbers its own results afresh
    if arity == 1:
        h += [["Y", "dup"], [("F", 2), "Y", "dup"], [("P", "Y")], [("F", 1), ("P", "Y")]]
    elif arity == 2:
        h += [["X", "dup", "Y"], ["Y", "X", "over"], ["X", "Y", "over", "over"], [("F", 1), "X", "dup", "Y", "over", "swap"],
              [("P", "X"), "Y"], ["X", ("P", "Y")], [("P", "X"), ("P", "Y")]]
    else:
        h += [["Z", "X", "Y", "over", "over"], [("P", "Z"), ("P", "X"), ("P", "Y")]]
    return h


def build(template, ops, fk, word):
    parts = []
    for x in template:
        if isinstance(x, tuple) and x[0] == "P":
            parts += [("cap", [], ("alt", [I(7), I(7), ops[x[1]]])), W("elem"), W("?2")]
        elif isinstance(x, tuple):
            parts += fillers(x[1], fk)
        elif x in ("X", "Y", "Z"):
            parts.append(ops[x])
        else:
            parts.append(W(x))
    parts.append(W(word))
    return cat(*parts)


def cases(tier):
    p = pool(tier)
    fks = ["c", "s", "q", "m"] if tier == "thorough" else ["c", "m"]
    for w in UNARY_WORDS:
        for (ny, y) in p:
            for hi, h in enumerate(histories(1, tier)):
                for fk in (fks if any(isinstance(x, tuple) and x[0] == "F" for x in h) else ["c"]):
                    yield ("%s|%s|h%d%s" % (w, ny, hi, fk), (w, (ny,), hi), build(h, {"Y": y}, fk, w))
    for w in BINARY_WORDS:
        for (nx, x), (ny, y) in itertools.product(p, repeat=2):
            hs = histories(2, tier)
            for hi, h in enumerate(hs):
                for fk in (fks if any(isinstance(t, tuple) and t[0] == "F" for t in h) else ["c"]):
                    yield ("%s|%s,%s|h%d%s" % (w, nx, ny, hi, fk), (w, (nx, ny), hi), build(h, {"X": x, "Y": y}, fk, w))
    small = p[:3] + p[10:12] + p[20:22]
    for w in TERNARY_WORDS:
        for (nz, z), (nx, x), (ny, y) in itertools.product(small, repeat=3):
            for hi, h in enumerate(histories(3, tier)):
                yield ("%s|%s,%s,%s|h%d" % (w, nz, nx, ny, hi), (w, (nz, nx, ny), hi), build(h, {"Z": z, "X": x, "Y": y}, "m", w))


def judge(name, t, r):
    q = zwmodel.render(t)
    case = {"name": name, "ast": repr(t)}

    def v(kind, what):
        return [("prog:%s|%s" % (q, kind), "`%s`: %s" % (q, what), dict(case, kind=kind))], kind

    if r.crash:
        return v("crash", "driver died: %s %s" % (r.crash[0], r.crash[1][-600:]))
    try:
        exp, run = zwmodel.run(t, ())
    except zwmodel.Unjudged:
        return [], "unjudged"
    except zwmodel.HardError:
        if r.first("e") is None and r.first("qerr") is None:
            return v("nohard", "stack underflow must surface as an API error; engine output %r" % r.lines[:3])
        return [], "hard-error"
    if r.first("qerr") is not None or r.first("e") is not None:
        return v("harderr", "unexpected error %r" % [drv.unhx(x).decode("latin-1") for x in (r.first("qerr"), r.first("e")) if x])
    got = r.results()
    if zwmodel.compare(got, exp, run, q) == "bad":
        return v("result", "engine yields %r, documented result %r" % (got, exp))
    errs = [l for l in r.soft_errors() if l.startswith("Error")]
    if run.soft and not errs:
        return v("nodiag", "operand not supported / operation failed: a diagnostic is due, none printed; results %r" % got)
    if errs and not run.soft:
        return v("diag", "unexpected diagnostic %r" % errs[:2])
    return [], ("err" if run.soft else "ok:%d" % len(got))


def _worker(d, task, extra):
    zwmodel.set_type_codes(extra["codes"])
    k, m = task
    out = {"programs": 0, "bad": [], "outcomes": {}, "pulls": 0, "by_operands": {}}
    pend = []

    def flush(n):
        rs = d.recv(n)
        for (name, grp, t), r in zip(pend[:n], rs):
            bad, oc = judge(name, t, r)
            out["programs"] += 1
            out["pulls"] += len(r.results()) + 1
            out["bad"] += bad
            out["outcomes"][oc.split(":")[0]] = out["outcomes"].get(oc.split(":")[0], 0) + 1
            if not r.crash:
                # differential between histories: the part of the outcome that the word produced must not depend on the history
                depth_free = (oc, tuple(x.split(" ")[-1] for x in r.results()))
                key = (grp[0], grp[1])
                prev = out["by_operands"].setdefault(key, (depth_free, name))
                if prev[0] != depth_free and grp[0] not in ("swap", "over", "rot", "dup", "drop"):
                    out["bad"].append(("hist:%s" % name, "word `%s` on operands %s: outcome depends on the history: %r (%s) vs %r (%s)" % (
                        grp[0], grp[1], prev[0], prev[1], depth_free, name), {"name": name, "ast": repr(t), "kind": "history"}))
        del pend[:n]

    for name, grp, t in itertools.islice(cases(extra["tier"]), k, None, m):
        d.send([drv.run_cmd(zwmodel.render(t), lim=100)])
        pend.append((name, grp, t))
        if len(pend) >= 60:
            flush(30)
    flush(len(pend))
    out["bad"] = out["bad"][:10]
    del out["by_operands"]
    return out


def run_stack_harness(binary, depth):
    env = dict(os.environ, ASAN_OPTIONS="detect_leaks=0", UBSAN_OPTIONS="halt_on_error=1:print_stacktrace=1")
    p = subprocess.run([binary, str(depth)], stdout=subprocess.PIPE, stderr=subprocess.PIPE, env=env)
    out = p.stdout.decode().splitlines()
    viols = [l[2:] for l in out if l.startswith("V ")]
    summ = [l for l in out if l.startswith("SUMMARY")]
    if p.returncode != 0 or not summ:
        viols.append("stack:harness:crash :: harness died rc=%s %s" % (p.returncode, p.stderr.decode(errors="replace")[-1500:]))
        return viols, {}
    return viols, {k: int(v) for k, v in (kv.split("=") for kv in summ[0].split()[1:])}


# ---------------------------------------------------------------- search words over all small haystacks and needles
def find_cases(hmax, nmax):
    """(kind, haystack, needle) for every haystack of up to hmax and needle of up to nmax elements over a two-letter alphabet
    (self-overlapping needles, repetitions before the real occurrence, needles longer than the haystack, empty operands)."""
    for kind, al in (("seq", (1, 2)), ("str", (0x61, 0x62))):
        for hl in range(hmax + 1):
            for h in itertools.product(al, repeat=hl):
                for nl in range(nmax + 1):
                    for n in itertools.product(al, repeat=nl):
                        yield kind, h, n


def _find_lit(kind, xs):
    return ("[" + ", ".join(map(str, xs)) + "]") if kind == "seq" else ('"' + "".join(chr(c) for c in xs) + '"')


def _find_worker(d, chunk, extra):
    out = {"n": 0, "bad": []}
    words = ["?find", "!find", "?starts", "!starts", "?ends", "!ends"]
    cmds = []
    for kind, h, n in chunk:
        for w in words:
            cmds.append(drv.run_cmd("%s %s %s" % (_find_lit(kind, h), _find_lit(kind, n), w), lim=3))
    rs = d.batch(cmds)
    for i, (kind, h, n) in enumerate(chunk):
        found = any(h[k:k + len(n)] == n for k in range(len(h) - len(n) + 1))
        starts = h[:len(n)] == n
        ends = len(n) <= len(h) and h[len(h) - len(n):] == n
        exp = [found, not found, starts, not starts, ends, not ends]
        for w, e, r in zip(words, exp, rs[6 * i:6 * i + 6]):
            out["n"] += 1
            got = len(r.results())
            if r.crash or r.stderr or got != (1 if e else 0) or len(r.lines) != got:
                out["bad"].append(("find:%s|%s|%s|%s" % (kind, h, n, w), "`%s %s %s` yields %r%s, the list model says it %s" % (
                    _find_lit(kind, h), _find_lit(kind, n), w, r.lines[:2], " with diagnostics %r" % r.stderr[:80] if r.stderr else "",
                    "holds" if e else "does not hold"), {"find": [kind, list(h), list(n)], "kind": "find"}))
    out["bad"] = out["bad"][:10]
    return out


# ---------------------------------------------------------------- one use site, several stacks in a row
STREAM_WORDS = {"?match": ['"b"', '"("', '"a*c"', '""'], "!match": ['"b"', '"("', '"^a"', '"["'], "?find": ['"b"', '"ab"', '""', '"x"'], "?starts": ['"a"', '"ab"', '""', '"b"'],
                "?ends": ['"c"', '"bc"', '""', '"a"'], "add": ['"x"', '""', '"yz"', "1"], "?eq": ['"abc"', '"ab"', "1", '""'], "=~": ['"b"', '"("', '"c$"', '"*"']}


def stream_cases(n):
    for w, ys in STREAM_WORDS.items():
        for x in ('"abc"', '""'):
            for seq in itertools.product(ys, repeat=n):
                yield w, x, seq


def _stream_worker(d, chunk, extra):
    """`X (Y1, Y2, Y3) W` must yield what `X Y1 W`, `X Y2 W`, `X Y3 W` yield one after the other, diagnostics included:
    the word sees each stack on its own (no compiled pattern, buffer or flag carried over from the previous stack)."""
    out = {"n": 0, "bad": []}
    singles = {}
    need = sorted({(w, x, y) for w, x, seq in chunk for y in seq})

    def q1(w, x, y):
        return "(%s =~ %s)" % (x, y) if w == "=~" else "%s %s %s" % (x, y, w)
    rs = d.batch([drv.run_cmd(q1(w, x, y), lim=5) for w, x, y in need])
    for k, r in zip(need, rs):
        singles[k] = r
    qs = []
    for w, x, seq in chunk:
        alt = "(" + ", ".join(seq) + ")"
        qs.append("%s %s (|A B| (A =~ B))" % (x, alt) if w == "=~" else "%s %s %s" % (x, alt, w))
    rs = d.batch([drv.run_cmd(q, lim=20) for q in qs])
    for (w, x, seq), q, r in zip(chunk, qs, rs):
        out["n"] += 1
        exp_n = [len(singles[(w, x, y)].results()) for y in seq]
        exp_diag = sum(len(singles[(w, x, y)].stderr.splitlines()) for y in seq)
        got_n = len(r.results())
        if r.crash or got_n != sum(exp_n) or len(r.stderr.splitlines()) != exp_diag:
            out["bad"].append(("stream:%s|%s|%s" % (w, x, ",".join(seq)), "`%s` yields %d results and %d diagnostic lines; the three stacks taken alone yield %r results and %d diagnostic lines" % (
                q, got_n, len(r.stderr.splitlines()), exp_n, exp_diag), {"stream": [w, x, list(seq)], "kind": "stream"}))
    out["bad"] = out["bad"][:10]
    return out


def replay(case):
    if "stream" in case:
        ctx = common.Ctx("C11", "quick")
        d = drv.Drv(ctx.bin("zwdrv"), "core")
        try:
            w, x, seq = case["stream"]
            return bool(_stream_worker(d, [(w, x, tuple(seq))], None)["bad"])
        finally:
            d.close()
    if "find" in case:
        ctx = common.Ctx("C11", "quick")
        d = drv.Drv(ctx.bin("zwdrv"), "core")
        try:
            k, h, n = case["find"]
            return bool(_find_worker(d, [(k, tuple(h), tuple(n))], None)["bad"])
        finally:
            d.close()
    ctx = common.Ctx("C11", "quick")
    if case.get("part") == "stack":
        viols, _ = run_stack_harness(ctx.bin("stack_harness"), case["depth"])
        return any(v.split(" :: ")[0] == case["key"] for v in viols)
    b = ctx.bin("zwdrv")
    codes, _ = c03.setup_info(b)
    zwmodel.set_type_codes(codes)
    d = drv.Drv(b, "core")
    try:
        t = _ast.literal_eval(case["ast"])
        bad, _ = judge(case["name"], t, d.run(zwmodel.render(t), lim=100))
        return bool(bad) or case.get("kind") == "history"
    finally:
        d.close()


def main(ctx):
    bins = ctx.build(["zwdrv", "stack_harness"])
    depth = 8 if ctx.tier == "thorough" else 7
    viols, summ = run_stack_harness(bins["stack_harness"], depth)
    for v in viols:
        key, _, what = v.partition(" :: ")
        ctx.violation(key, "stack class: " + what, {"part": "stack", "depth": depth, "key": key})
    ctx.count("stack_states", summ.get("states", 0))
    ctx.count("stack_transitions", summ.get("transitions", 0))
    codes, _ = c03.setup_info(bins["zwdrv"])
    m = 256
    outcomes = {}
    for r in common.pmap(ctx, _worker, [(k, m) for k in range(m)], bins["zwdrv"], "core", extra={"codes": codes, "tier": ctx.tier}, timeout=60):
        ctx.count("programs", r["programs"])
        ctx.count("pulls", r["pulls"])
        for k, v in r["outcomes"].items():
            outcomes[k] = outcomes.get(k, 0) + v
        for key, what, case in r["bad"]:
            ctx.violation(key, what, case)
    fb = (6, 4) if ctx.tier == "thorough" else (5, 3)
    for r in common.pmap(ctx, _find_worker, common.chunks(find_cases(*fb), 60), bins["zwdrv"], "core", timeout=60):
        ctx.count("search_word_cases", r["n"])
        ctx.count("programs", r["n"])
        for key, what, case in r["bad"]:
            ctx.violation(key, what, case)
    for r in common.pmap(ctx, _stream_worker, common.chunks(stream_cases(4 if ctx.tier == "thorough" else 3), 64), bins["zwdrv"], "core", timeout=60):
        ctx.count("stream_cases", r["n"])
        ctx.count("programs", r["n"])
        for key, what, case in r["bad"]:
            ctx.violation(key, what, case)
    ctx.sample({"program": '7 "f" [7] {2} "ab" "a\\x00b" 7 drop ?starts', "expect": "unchanged stack or nothing per the bytes model"})
    n = ctx.counts.get("programs", 0)
    cov = {
        "states": summ.get("states", 0) + n,
        "transitions": summ.get("transitions", 0) + ctx.counts.get("pulls", 0),
        "traces_validated_against_impl": n - outcomes.get("unjudged", 0),
        "evaluations": n + summ.get("transitions", 0),
        "distinct_nontrivial": n,
        "distinct_outcomes": outcomes,
        "rule": "stack part: state = sequence of slot types reachable by push/pop/drop/copy up to the depth bound (BFS, all transitions checked); "
                "word part: state = (word, operand tuple, history template, filler kind) program run to exhaustion; distinct = distinct program",
        "bounds": {"stack_depth": depth, "pool": [n_ for n_, _ in pool(ctx.tier)], "unary_words": UNARY_WORDS, "binary_words": BINARY_WORDS,
                   "histories_per_arity": {a: len(histories(a, ctx.tier)) for a in (1, 2, 3)},
                   "search_words": "?find / ?starts / ?ends and negations on every haystack of <= %d and needle of <= %d elements over two letters, sequences and strings" % fb},
    }
    return ctx.finish("model_checking", cov, [
        "lib/zwmodel.py word semantics follow the word docstrings; ?match is POSIX ERE search on the NUL-terminated prefix (libc regexec), "
        "which the project's own tests and the implementation agree on",
        "comparison words across types and closures are judged by C09, not here",
    ], replay)
