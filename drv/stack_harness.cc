// stack_harness: explicit-state BFS over the real `stack` class of
// /repo/libzwerg/stack.hh with real value types.  State = sequence of slot
// types; operations push(T_CONST|T_STR|T_SEQ|T_CLOSURE), pop, drop 1..3,
// copy-construct.  Invariant in every state: the cached type profile equals a
// recomputation from the top W slots, and so does the profile of a copy.
//
// usage: stack_harness <max-depth>
#include <cassert>
#include <cstdio>
#include <cstdlib>
#include <deque>
#include <map>
#include <memory>
#include <string>
#include <vector>

#include "stack.hh"
#include "selector.hh"
#include "value-cst.hh"
#include "value-str.hh"
#include "value-seq.hh"
#include "value-closure.hh"
#include "op.hh"

static std::unique_ptr <value>
mk (int k)
{
  switch (k)
    {
    case 0:
      return std::make_unique <value_cst> (constant {7, &dec_constant_dom}, 0);
    case 1:
      return std::make_unique <value_str> (std::string ("s"), 0);
    case 2:
      return std::make_unique <value_seq> (value_seq::seq_t {}, 0);
    default:
      {
	layout l;
	auto origin = std::make_shared <op_origin> (l);
	return std::make_unique <value_closure>
	  (l, layout::loc {0}, origin, origin,
	   std::vector <std::unique_ptr <value>> {}, 0);
      }
    }
}

static selector::sel_t
recompute (stack const &s)
{
  selector::sel_t p = 0;
  for (unsigned d = 0; d < selector::W && d < s.size (); ++d)
    p |= ((selector::sel_t) s.get (d).get_type ().code ()) << (8 * d);
  return p;
}

static std::unique_ptr <stack>
build (std::string const &path)
{
  // Replays an operation history on a fresh object (stacks hold unique_ptrs).
  auto s = std::make_unique <stack> ();
  for (char c: path)
    switch (c)
      {
      case 'c': s->push (mk (0)); break;
      case 's': s->push (mk (1)); break;
      case 'q': s->push (mk (2)); break;
      case 'k': s->push (mk (3)); break;
      case 'p': s->pop (); break;
      case '1': s->drop (1); break;
      case '2': s->drop (2); break;
      case '3': s->drop (3); break;
      case 'y': s = std::make_unique <stack> (*s); break;
      }
  return s;
}

static std::string
types (stack const &s)
{
  std::string r;
  for (size_t d = s.size (); d-- > 0; )
    r += (char) ('0' + s.get (d).get_type ().code ());
  return r;
}

int
main (int argc, char **argv)
{
  unsigned maxdepth = argc > 1 ? atoi (argv[1]) : 6;
  std::map <std::string, std::string> seen;	// type string -> first path
  std::deque <std::string> frontier;
  unsigned long transitions = 0, violations = 0;
  seen[""] = "";
  frontier.push_back ("");
  static char const ops[] = "csqkp123y";

  while (! frontier.empty ())
    {
      std::string key = frontier.front ();
      frontier.pop_front ();
      std::string const &path = seen[key];
      for (char op: std::string (ops))
	{
	  auto s = build (path);
	  size_t sz = s->size ();
	  if ((op == 'p' || op == '1') && sz < 1) continue;
	  if (op == '2' && sz < 2) continue;
	  if (op == '3' && sz < 3) continue;
	  if (std::string ("csqk").find (op) != std::string::npos
	      && sz >= maxdepth)
	    continue;
	  std::string npath = path + op;
	  s = build (npath);
	  ++transitions;
	  stack copy (*s);
	  if (s->profile () != recompute (*s))
	    {
	      ++violations;
	      if (violations <= 100)
		printf ("V stack:%s:profile :: after history %s the cached profile is %#x, the top slots give %#x (types %s)\n",
			npath.c_str (), npath.c_str (), s->profile (),
			recompute (*s), types (*s).c_str ());
	    }
	  else if (copy.profile () != recompute (copy)
		   || copy.size () != s->size ())
	    {
	      ++violations;
	      if (violations <= 100)
		printf ("V stack:%s:copy :: copy after history %s has profile %#x, its top slots give %#x\n",
			npath.c_str (), npath.c_str (), copy.profile (),
			recompute (copy));
	    }
	  std::string k = types (*s);
	  if (seen.find (k) == seen.end ())
	    {
	      seen[k] = npath;
	      frontier.push_back (k);
	    }
	}
    }
  printf ("SUMMARY states=%zu transitions=%lu violations=%lu\n",
	  seen.size (), transitions, violations);
  return 0;
}
