// int_harness: evaluates the real mpz_class of /repo/libzwerg/int.cc.
// stdin lines:  <op> <repr><hex64> [<repr><hex64>]      repr = s|u
// stdout lines: s<int64> | u<uint64> | b0 | b1 | t<text> | E<message> | X<message>
#include <cassert>
#include <cinttypes>
#include <cstdio>
#include <cstdlib>
#include <cstring>
#include <iostream>
#include <sstream>
#include <stdexcept>
#include <string>
#include "int.hh"

static mpz_class
operand (char const *tok)
{
  signedness sg = tok[0] == 's' ? signedness::sign : signedness::unsign;
  uint64_t v = strtoull (tok + 1, nullptr, 16);
  return mpz_class {v, sg};
}

static void
emit (mpz_class r)
{
  if (r.m_sign == signedness::sign)
    printf ("s%" PRId64 "\n", r.m_i);
  else
    printf ("u%" PRIu64 "\n", r.m_u);
}

int
main ()
{
  char line[256];
  while (fgets (line, sizeof line, stdin))
    {
      char op[16], a[32], b[32];
      int n = sscanf (line, "%15s %31s %31s", op, a, b);
      if (n < 2)
	continue;
      try
	{
	  mpz_class x = operand (a);
	  mpz_class y = n > 2 ? operand (b) : mpz_class {};
	  if (! strcmp (op, "add")) emit (x + y);
	  else if (! strcmp (op, "sub")) emit (x - y);
	  else if (! strcmp (op, "mul")) emit (x * y);
	  else if (! strcmp (op, "div")) emit (x / y);
	  else if (! strcmp (op, "mod")) emit (x % y);
	  else if (! strcmp (op, "neg")) emit (-x);
	  else if (! strcmp (op, "lt")) printf ("b%d\n", (int) (x < y));
	  else if (! strcmp (op, "le")) printf ("b%d\n", (int) (x <= y));
	  else if (! strcmp (op, "gt")) printf ("b%d\n", (int) (x > y));
	  else if (! strcmp (op, "ge")) printf ("b%d\n", (int) (x >= y));
	  else if (! strcmp (op, "eq")) printf ("b%d\n", (int) (x == y));
	  else if (! strcmp (op, "ne")) printf ("b%d\n", (int) (x != y));
	  else if (! strcmp (op, "show"))
	    {
	      std::stringstream ss;
	      ss << x;
	      printf ("t%s\n", ss.str ().c_str ());
	    }
	  else
	    printf ("X unknown op\n");
	}
      catch (std::domain_error const &e)
	{
	  printf ("E%s\n", e.what ());
	}
      catch (std::exception const &e)
	{
	  printf ("X%s\n", e.what ());
	}
    }
  return 0;
}
