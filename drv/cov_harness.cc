// cov_harness: explicit-state BFS over the real `coverage` class of
// /repo/libzwerg/coverage.cc on a universe of N consecutive addresses
// starting at BASE.  Every state is compared with a bitmap model.
//
// usage: cov_harness <base-hex> <N>
// output: lines "V <key> :: <description>" for violations, and a final
//         "SUMMARY states=<n> transitions=<n> pair_checks=<n> queries=<n>"
#include <cassert>
#include <cinttypes>
#include <cstdio>
#include <cstdlib>
#include <deque>
#include <map>
#include <sstream>
#include <string>
#include <vector>
#include "coverage.hh"

static uint64_t BASE;
static unsigned N;
static unsigned long n_viol = 0;

struct node
{
  coverage cov;
  unsigned bits;	// model
  std::string path;
};

static std::string
repr (coverage const &c)
{
  std::stringstream ss;
  for (size_t i = 0; i < c.size (); ++i)
    ss << (i ? "," : "") << std::hex << c.at (i).start << "+" << c.at (i).length;
  return ss.str ();
}

static void
viol (std::string const &path, std::string const &query, std::string const &desc)
{
  ++n_viol;
  if (n_viol <= 200)
    printf ("V cov:%" PRIx64 ":%u:%s:%s :: %s\n", BASE, N, path.c_str (),
	    query.c_str (), desc.c_str ());
}

static unsigned
mask (unsigned s, unsigned l)
{
  return l == 0 ? 0 : (((1u << l) - 1) << s);
}

// Bitmap denoted by the representation; flags representation errors.
static bool
decode (coverage const &c, unsigned &bits, std::string &why)
{
  bits = 0;
  uint64_t prev_end = 0;
  bool have_prev = false;
  for (size_t i = 0; i < c.size (); ++i)
    {
      cov_range r = c.at (i);
      if (r.length == 0)
	{ why = "empty run"; return false; }
      if (r.start < BASE || r.start - BASE >= N || r.length > N - (r.start - BASE))
	{ why = "run outside the universe"; return false; }
      if (have_prev && r.start < prev_end)
	{ why = "runs unsorted or overlapping"; return false; }
      if (have_prev && r.start == prev_end)
	{ why = "adjacent runs not coalesced"; return false; }
      bits |= mask (r.start - BASE, r.length);
      prev_end = r.start + r.length;
      have_prev = true;
    }
  return true;
}

static bool
collect_cb (uint64_t start, uint64_t length, void *data)
{
  auto v = static_cast <std::vector <cov_range> *> (data);
  v->push_back (cov_range {start, length});
  return true;
}

static std::string
model_format (unsigned bits)
{
  std::stringstream ss;
  bool any = false;
  for (unsigned i = 0; i < N; )
    if (bits & (1u << i))
      {
	unsigned j = i;
	while (j < N && (bits & (1u << j)))
	  ++j;
	if (any)
	  ss << ", ";
	ss << "[" << std::hex << std::showbase << (BASE + i) << ", "
	   << (BASE + j) << ")";
	any = true;
	i = j;
      }
    else
      ++i;
  if (! any)
    ss << "[)";
  return ss.str ();
}

int
main (int argc, char **argv)
{
  if (argc < 3)
    return 2;
  BASE = strtoull (argv[1], nullptr, 16);
  N = atoi (argv[2]);
  assert (N >= 1 && N <= 12);
  assert (BASE + N > BASE);	// the universe must not wrap

  std::map <std::string, size_t> index;
  std::vector <node> nodes;
  std::deque <size_t> frontier;
  unsigned long transitions = 0, queries = 0, pair_checks = 0;

  nodes.push_back (node {coverage {}, 0, ""});
  index[""] = 0;
  frontier.push_back (0);

  while (! frontier.empty ())
    {
      size_t cur = frontier.front ();
      frontier.pop_front ();
      for (int kind = 0; kind < 2; ++kind)
	for (unsigned s = 0; s < N; ++s)
	  for (unsigned l = 0; l <= N - s; ++l)
	    {
	      node nn = nodes[cur];	// copy
	      std::stringstream step;
	      step << (kind == 0 ? "a" : "r") << s << "." << l;
	      std::string path = nn.path.empty () ? step.str ()
		: nn.path + ";" + step.str ();
	      unsigned exp;
	      bool ret = false;
	      if (kind == 0)
		{
		  nn.cov.add (BASE + s, l);
		  exp = nn.bits | mask (s, l);
		}
	      else
		{
		  ret = nn.cov.remove (BASE + s, l);
		  exp = nn.bits & ~mask (s, l);
		  bool exp_ret = (nn.bits & mask (s, l)) != 0;
		  if (ret != exp_ret)
		    viol (path, "remove-return", "remove returned "
			  + std::to_string (ret) + ", something was "
			  + (exp_ret ? "" : "not ") + "removed");
		}
	      ++transitions;
	      unsigned got;
	      std::string why;
	      if (! decode (nn.cov, got, why))
		{
		  viol (path, "invariant", why + ": " + repr (nn.cov));
		  continue;
		}
	      if (got != exp)
		{
		  viol (path, "denotation", "representation " + repr (nn.cov)
			+ " denotes bitmap " + std::to_string (got)
			+ ", model says " + std::to_string (exp));
		  continue;
		}
	      nn.bits = exp;
	      nn.path = path;
	      std::string key = repr (nn.cov);
	      if (index.find (key) == index.end ())
		{
		  index[key] = nodes.size ();
		  nodes.push_back (nn);
		  frontier.push_back (nodes.size () - 1);
		}
	    }
    }

  // Queries in every state.
  for (auto const &nd: nodes)
    {
      for (unsigned s = 0; s < N; ++s)
	for (unsigned l = 1; l <= N - s; ++l)
	  {
	    unsigned m = mask (s, l);
	    std::stringstream q;
	    q << s << "." << l;
	    ++queries;
	    if (nd.cov.is_covered (BASE + s, l) != ((nd.bits & m) == m))
	      viol (nd.path, "is_covered:" + q.str (), "wrong answer on " + repr (nd.cov));
	    ++queries;
	    if (nd.cov.is_overlap (BASE + s, l) != ((nd.bits & m) != 0))
	      viol (nd.path, "is_overlap:" + q.str (), "wrong answer on " + repr (nd.cov));
	    ++queries;
	    coverage is = nd.cov.intersect (BASE + s, l);
	    unsigned ib;
	    std::string why;
	    if (! decode (is, ib, why))
	      viol (nd.path, "intersect:" + q.str (), why + ": " + repr (is));
	    else if (ib != (nd.bits & m))
	      viol (nd.path, "intersect:" + q.str (), "got " + repr (is) + " from " + repr (nd.cov));
	  }
      {
	++queries;
	if (! nd.cov.intersect (BASE, 0).empty ())
	  viol (nd.path, "intersect:0.0", "zero-length intersection not empty");
	std::vector <cov_range> rs;
	nd.cov.find_ranges (collect_cb, &rs);
	coverage rebuilt;
	for (auto const &r: rs)
	  rebuilt.add (r.start, r.length);
	++queries;
	if (! (rebuilt == nd.cov) || rs.size () != nd.cov.size ())
	  viol (nd.path, "find_ranges", "ranges do not rebuild the set " + repr (nd.cov));
	std::stringstream ss;
	ss << cov::format_ranges (nd.cov);
	++queries;
	if (ss.str () != model_format (nd.bits))
	  viol (nd.path, "format", "rendered `" + ss.str () + "', model `"
		+ model_format (nd.bits) + "'");
      }
    }

  // All pairs of states: + - == containment, overlap, intersection.
  for (auto const &a: nodes)
    for (auto const &b: nodes)
      {
	++pair_checks;
	std::string pq = "pair(" + b.path + ")";
	unsigned got;
	std::string why;
	coverage u = a.cov + b.cov;
	if (! decode (u, got, why) || got != (a.bits | b.bits))
	  viol (a.path, "plus:" + pq, repr (a.cov) + " + " + repr (b.cov) + " = " + repr (u) + " " + why);
	coverage d = a.cov - b.cov;
	if (! decode (d, got, why) || got != (a.bits & ~b.bits))
	  viol (a.path, "minus:" + pq, repr (a.cov) + " - " + repr (b.cov) + " = " + repr (d) + " " + why);
	if ((a.cov == b.cov) != (a.bits == b.bits))
	  viol (a.path, "eq:" + pq, repr (a.cov) + " == " + repr (b.cov) + " wrong");
	// what the Zwerg words compute: per-range queries of b against a
	bool contains = true, overlaps = false;
	coverage inter;
	for (size_t i = 0; i < b.cov.size (); ++i)
	  {
	    cov_range r = b.cov.at (i);
	    if (! a.cov.is_covered (r.start, r.length))
	      contains = false;
	    if (a.cov.is_overlap (r.start, r.length))
	      overlaps = true;
	    inter.add_all (a.cov.intersect (r.start, r.length));
	  }
	if (contains != ((a.bits & b.bits) == b.bits))
	  viol (a.path, "contains:" + pq, repr (a.cov) + " contains " + repr (b.cov) + " wrong");
	if (overlaps != ((a.bits & b.bits) != 0))
	  viol (a.path, "overlaps:" + pq, repr (a.cov) + " overlaps " + repr (b.cov) + " wrong");
	if (! decode (inter, got, why) || got != (a.bits & b.bits))
	  viol (a.path, "overlap:" + pq, repr (a.cov) + " & " + repr (b.cov) + " = " + repr (inter) + " " + why);
      }

  printf ("SUMMARY states=%zu transitions=%lu pair_checks=%lu queries=%lu violations=%lu\n",
	  nodes.size (), transitions, pair_checks, queries, n_viol);
  return 0;
}
