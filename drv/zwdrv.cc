// zwdrv: line-protocol driver over the real libzwerg objects of /repo.
// One command per input line, tokens separated by blanks, byte strings
// hex-encoded with an 'x' prefix.  Every response ends with a line ".".
// See /verif/lib/drv.py for the client side.

#include <algorithm>
#include <cassert>
#include <cstdio>
#include <cstdlib>
#include <cstring>
#include <fcntl.h>
#include <iostream>
#include <map>
#include <memory>
#include <signal.h>
#include <sstream>
#include <string>
#include <sys/mman.h>
#include <unistd.h>
#include <vector>
#include <dwarf.h>

#include "libzwergP.hh"
#include "libzwerg-dw.h"
#include "builtin.hh"
#include "builtin-cst.hh"
#include "init.hh"
#include "parser.hh"
#include "stack.hh"
#include "tree.hh"
#include "value-closure.hh"
#include "value-cst.hh"
#include "value-seq.hh"
#include "value-str.hh"
#include "value-dw.hh"
#include "value-aset.hh"
#include "value-symbol.hh"
#include "coverage.hh"

#if defined(__SANITIZE_ADDRESS__)
extern "C" size_t __sanitizer_get_current_allocated_bytes ();
extern "C" int __lsan_do_recoverable_leak_check ();
#define HAVE_SAN 1
#else
#define HAVE_SAN 0
#endif

namespace
{
  FILE *out;		// protocol output (dup of the original stdout)
  int errfd = -1;	// memfd that fd 2 points to
  bool show_sign = false;

  std::string
  hex (std::string const &s)
  {
    static char const *d = "0123456789abcdef";
    std::string r = "x";
    r.reserve (1 + 2 * s.size ());
    for (unsigned char c: s)
      {
	r += d[c >> 4];
	r += d[c & 15];
      }
    return r;
  }

  std::string
  unhex (std::string const &s)
  {
    assert (! s.empty () && s[0] == 'x');
    std::string r;
    auto v = [] (char c) -> int {
      return c <= '9' ? c - '0' : c - 'a' + 10;
    };
    for (size_t i = 1; i + 1 < s.size (); i += 2)
      r += (char) (v (s[i]) * 16 + v (s[i + 1]));
    return r;
  }

  std::string
  take_stderr ()
  {
    fflush (stderr);
    std::cerr.flush ();
    off_t n = lseek (errfd, 0, SEEK_CUR);
    if (n <= 0)
      return "";
    std::string r (n, 0);
    ssize_t got = pread (errfd, &r[0], n, 0);
    if (got < 0)
      got = 0;
    r.resize (got);
    if (ftruncate (errfd, 0) != 0)
      abort ();
    lseek (errfd, 0, SEEK_SET);
    return r;
  }

  std::map <dwfl_context *, int> dwctx_ids;

  int
  dwctx_id (std::shared_ptr <dwfl_context> c)
  {
    auto it = dwctx_ids.find (c.get ());
    if (it != dwctx_ids.end ())
      return it->second;
    int id = 100 + dwctx_ids.size ();
    dwctx_ids[c.get ()] = id;
    return id;
  }

  void canon (value const &v, std::ostream &o);

  void
  canon_die (value_die const &d, std::ostream &o)
  {
    Dwarf_Die die = d.get_die ();
    o << "D:f" << dwctx_id (d.get_dwctx ()) << ":" << std::hex
      << dwarf_dieoffset (&die) << std::dec << ":"
      << (d.is_raw () ? "r" : "c") << ":";
    if (d.is_cooked ())
      {
	bool first = true;
	for (auto imp = d.get_import (); imp != nullptr;
	     imp = imp->is_cooked () ? imp->get_import () : nullptr)
	  {
	    Dwarf_Die idie = imp->get_die ();
	    if (! first)
	      o << "/";
	    first = false;
	    o << std::hex << dwarf_dieoffset (&idie) << std::dec;
	  }
      }
  }

  void
  canon (value const &v, std::ostream &o)
  {
    if (auto c = value::as <value_cst> (&v))
      {
	auto const &cst = c->get_constant ();
	std::string dn = cst.dom () ? cst.dom ()->name () : "(null)";
	for (auto &ch: dn)
	  if (ch == ' ' || ch == ':' || ch == '@' || ch == ',')
	    ch = '_';
	o << "c:" << dn << ":";
	mpz_class val = cst.value ();
	if (val.m_sign == signedness::sign)
	  o << val.m_i;
	else
	  o << val.m_u;
	if (show_sign)
	  o << (val.m_sign == signedness::sign ? ":s" : ":u");
      }
    else if (auto s = value::as <value_str> (&v))
      o << "s:" << hex (s->get_string ());
    else if (auto q = value::as <value_seq> (&v))
      {
	o << "[";
	bool first = true;
	for (auto const &e: *q->get_seq ())
	  {
	    if (! first)
	      o << ",";
	    first = false;
	    canon (*e, o);
	  }
	o << "]";
      }
    else if (value::as <value_closure> (&v))
      o << "K";
    else if (auto w = value::as <value_dwarf> (&v))
      o << "W:f" << dwctx_id (w->get_dwctx ()) << ":"
	<< (w->is_raw () ? "r" : "c");
    else if (auto u = value::as <value_cu> (&v))
      o << "U:f" << dwctx_id (u->get_dwctx ()) << ":" << std::hex
	<< u->get_offset () << std::dec << ":" << (u->is_raw () ? "r" : "c");
    else if (auto d = value::as <value_die> (&v))
      canon_die (*d, o);
    else if (auto a = value::as <value_attr> (&v))
      {
	Dwarf_Attribute at = a->get_attr ();
	o << "A:" << std::hex << dwarf_whatattr (&at) << ":"
	  << dwarf_whatform (&at) << std::dec << ":"
	  << (a->is_raw () ? "r" : "c") << ":{";
	canon_die (a->get_value_die (), o);
	o << "}";
      }
    else if (auto bu = value::as <value_abbrev_unit> (&v))
      {
	Dwarf_Die cudie;
	auto &cu = const_cast <value_abbrev_unit *> (bu)->get_cu ();
	Dwarf_Off off = 0;
	if (dwarf_cu_die (&cu, &cudie, nullptr, nullptr, nullptr, nullptr,
			  nullptr, nullptr) != nullptr)
	  off = dwarf_dieoffset (&cudie);
	o << "BU:f" << dwctx_id (bu->get_dwctx ()) << ":" << std::hex << off
	  << std::dec;
      }
    else if (auto b = value::as <value_abbrev> (&v))
      {
	auto &ab = const_cast <value_abbrev *> (b)->get_abbrev ();
	o << "B:f" << dwctx_id (b->get_dwctx ()) << ":"
	  << dwarf_getabbrevcode (&ab) << ":" << std::hex
	  << dwarf_getabbrevtag (&ab) << std::dec << ":"
	  << dwarf_abbrevhaschildren (&ab);
      }
    else if (auto ba = value::as <value_abbrev_attr> (&v))
      o << "BA:" << std::hex << ba->name << ":" << ba->form << ":"
	<< ba->offset << std::dec;
    else if (auto le = value::as <value_loclist_elem> (&v))
      o << "LE:" << std::hex << le->get_low () << ":" << le->get_high ()
	<< std::dec << ":" << le->get_exprlen ();
    else if (auto lo = value::as <value_loclist_op> (&v))
      {
	Dwarf_Op *op = lo->get_dwop ();
	o << "LO:" << std::hex << (unsigned) op->atom << ":" << op->number
	  << ":" << op->number2 << ":" << op->offset << std::dec;
      }
    else if (auto as = value::as <value_aset> (&v))
      {
	o << "AS:";
	auto const &cov = as->get_coverage ();
	for (size_t i = 0; i < cov.size (); ++i)
	  o << (i ? "," : "") << std::hex << cov.at (i).start << "+"
	    << cov.at (i).length << std::dec;
      }
    else if (auto sy = value::as <value_symbol> (&v))
      o << "SY:f" << dwctx_id (sy->get_dwctx ()) << ":" << sy->get_symidx ()
	<< ":" << hex (sy->get_name () ? sy->get_name () : "");
    else
      {
	std::stringstream ss;
	v.show (ss);
	o << "?:" << v.get_type ().name () << ":" << hex (ss.str ());
      }
    o << "@" << v.get_pos ();
  }

  std::string
  canon_stack (zw_stack const &stk)
  {
    std::stringstream ss;
    bool first = true;
    for (auto const &v: stk.m_values)
      {
	if (! first)
	  ss << " ";
	first = false;
	canon (*v, ss);
      }
    if (first)
      ss << "-";
    return ss.str ();
  }

  // ----- vocabularies -----
  std::map <std::string, zw_vocabulary *> vocs;
  zw_vocabulary const *cur_voc = nullptr;

  zw_vocabulary const *
  get_voc (std::string const &name)
  {
    auto it = vocs.find (name);
    if (it != vocs.end ())
      return it->second;
    zw_error *err = nullptr;
    zw_vocabulary *v = zw_vocabulary_init (&err);
    assert (v != nullptr);
    if (name == "core" || name == "full")
      {
	bool ok = zw_vocabulary_add (v, zw_vocabulary_core (&err), &err);
	assert (ok);
      }
    if (name == "dw" || name == "full")
      {
	bool ok = zw_vocabulary_add (v, zw_vocabulary_dwarf (&err), &err);
	assert (ok);
      }
    vocs[name] = v;
    return v;
  }

  std::map <std::string, zw_value *> dwarfs;
  std::map <std::string, zw_query *> queries;
  std::map <std::string, zw_result *> results;
  std::map <std::string, zw_stack *> stacks;

  struct errbox
  {
    zw_error *e = nullptr;
    ~errbox () { if (e) zw_error_destroy (e); }
    std::string msg () { return e ? zw_error_message (e) : ""; }
    void clear () { if (e) zw_error_destroy (e); e = nullptr; }
  };

  // Parse with or without simplification; mirrors zw_query_parse_len.
  zw_query *
  parse (std::string const &q, bool nosimp, zw_error **err)
  {
    if (! nosimp)
      return zw_query_parse_len (cur_voc, q.data (), q.size (), err);
    return capture_errors ([&] () {
	tree t = parse_query ({q.data (), q.size ()});
	layout l;
	auto origin = std::make_shared <op_origin> (l);
	auto op = t.build_exec (l, origin, *cur_voc->m_voc);
	return new zw_query {l, *origin, op};
      }, nullptr, err);
  }

  zw_stack *
  init_stack (std::string const &spec, std::string &why)
  {
    zw_error *err = nullptr;
    zw_stack *stk = zw_stack_init (&err);
    assert (stk);
    if (spec == "-" || spec.empty ())
      return stk;
    // comma separated list of dwarf handles
    std::stringstream ss (spec);
    std::string item;
    while (std::getline (ss, item, ','))
      {
	auto it = dwarfs.find (item);
	if (it == dwarfs.end ())
	  {
	    why = "no such handle " + item;
	    zw_stack_destroy (stk);
	    return nullptr;
	  }
	bool ok = zw_stack_push (stk, it->second, &err);
	assert (ok);
      }
    return stk;
  }

  // Run Q on STK, print results.  Returns false on hard error.
  void
  run_on (zw_query *q, zw_stack const *stk, long lim)
  {
    errbox eb;
    zw_result *res = zw_query_execute (q, stk, &eb.e);
    if (res == nullptr)
      {
	fprintf (out, "e %s\n", hex (eb.msg ()).c_str ());
	return;
      }
    for (long n = 0; ; ++n)
      {
	if (lim >= 0 && n >= lim)
	  {
	    fprintf (out, "t\n");
	    break;
	  }
	zw_stack *o = nullptr;
	bool ok = zw_result_next (res, &o, &eb.e);
	if (! ok)
	  {
	    if (eb.e == nullptr)
	      fprintf (out, "CONTRACT next-false-without-error\n");
	    fprintf (out, "e %s\n", hex (eb.msg ()).c_str ());
	    break;
	  }
	if (eb.e != nullptr)
	  fprintf (out, "CONTRACT next-true-with-error\n");
	if (o == nullptr)
	  break;
	fprintf (out, "r %s\n", canon_stack (*o).c_str ());
	zw_stack_destroy (o);
      }
    zw_result_destroy (res);
  }

  std::map <std::string, std::string>
  kv (std::vector <std::string> const &toks)
  {
    std::map <std::string, std::string> m;
    for (size_t i = 1; i < toks.size (); ++i)
      {
	auto p = toks[i].find ('=');
	if (p == std::string::npos)
	  m[toks[i]] = "1";
	else
	  m[toks[i].substr (0, p)] = toks[i].substr (p + 1);
      }
    return m;
  }

  void
  cmd_run (std::map <std::string, std::string> &a)
  {
    bool nosimp = a.count ("nosimp");
    long lim = a.count ("lim") ? atol (a["lim"].c_str ()) : 100000;
    std::string why;
    zw_stack *init = init_stack (a.count ("i") ? a["i"] : "-", why);
    if (init == nullptr)
      {
	fprintf (out, "ierr %s\n", hex (why).c_str ());
	return;
      }

    errbox eb;
    zw_query *q = parse (unhex (a["q"]), nosimp, &eb.e);
    if (q == nullptr)
      {
	if (eb.e == nullptr || eb.msg ().empty ())
	  fprintf (out, "CONTRACT parse-null-without-message\n");
	fprintf (out, "qerr %s\n", hex (eb.msg ()).c_str ());
	zw_stack_destroy (init);
	return;
      }
    if (eb.e != nullptr)
      fprintf (out, "CONTRACT parse-ok-with-error\n");

    if (! a.count ("p"))
      run_on (q, init, lim);
    else
      {
	errbox eb2;
	zw_query *p = parse (unhex (a["p"]), false, &eb2.e);
	if (p == nullptr)
	  fprintf (out, "perr %s\n", hex (eb2.msg ()).c_str ());
	else
	  {
	    zw_result *res = zw_query_execute (p, init, &eb2.e);
	    assert (res != nullptr);
	    while (true)
	      {
		zw_stack *o = nullptr;
		if (! zw_result_next (res, &o, &eb2.e))
		  {
		    fprintf (out, "perr %s\n", hex (eb2.msg ()).c_str ());
		    break;
		  }
		if (o == nullptr)
		  break;
		fprintf (out, "g %s\n", canon_stack (*o).c_str ());
		run_on (q, o, lim);
		zw_stack_destroy (o);
	      }
	    zw_result_destroy (res);
	    zw_query_destroy (p);
	  }
      }
    zw_query_destroy (q);
    zw_stack_destroy (init);
  }

  // Parse from a heap buffer of exactly the given size (ASan red zones
  // catch reads outside the length).
  void
  cmd_parselen (std::map <std::string, std::string> &a)
  {
    std::string q = unhex (a["q"]);
    char *buf = (char *) malloc (q.size () ? q.size () : 1);
    memcpy (buf, q.data (), q.size ());
    errbox eb;
    zw_query *qq = zw_query_parse_len (cur_voc, buf, q.size (), &eb.e);
    free (buf);
    if (qq == nullptr)
      {
	if (eb.e == nullptr || eb.msg ().empty ())
	  fprintf (out, "CONTRACT parse-null-without-message\n");
	fprintf (out, "qerr %s\n", hex (eb.msg ()).c_str ());
	return;
      }
    if (eb.e != nullptr)
      fprintf (out, "CONTRACT parse-ok-with-error\n");
    fprintf (out, "ok\n");
    fflush (out);	// so that a watchdog kill during execution is told from one during parsing
    if (a.count ("exec"))
      {
	long lim = a.count ("lim") ? atol (a["lim"].c_str ()) : 50;
	zw_error *err = nullptr;
	zw_stack *s0 = zw_stack_init (&err);
	run_on (qq, s0, lim);
	fprintf (out, "--\n");
	zw_value *one = zw_value_init_const_i64 (1, zw_cdom_dec (), 0, &err);
	zw_stack_push_take (s0, one, &err);
	run_on (qq, s0, lim);
	zw_stack_destroy (s0);
      }
    zw_query_destroy (qq);
  }

  void
  cmd_dumpvoc ()
  {
    for (auto const &e: cur_voc->m_voc->get_builtins ())
      {
	builtin const &bi = *e.second;
	layout l;
	char const *kind = "exec";
	if (bi.build_pred (l) != nullptr)
	  kind = "pred";
	else if (dynamic_cast <builtin_constant const *> (&bi))
	  kind = "const";
	fprintf (out, "w %s %s %s\n", hex (e.first).c_str (), kind,
		 hex (bi.name ()).c_str ());
      }
  }

  void
  cmd_tree (std::map <std::string, std::string> &a)
  {
    try
      {
	tree t = parse_query (unhex (a["q"]));
	std::stringstream s1;
	s1 << t;
	t.simplify ();
	std::stringstream s2;
	s2 << t;
	fprintf (out, "raw %s\nsimp %s\n", hex (s1.str ()).c_str (),
		 hex (s2.str ()).c_str ());
      }
    catch (std::exception const &e)
      {
	fprintf (out, "qerr %s\n", hex (e.what ()).c_str ());
      }
  }

  void
  dispatch (std::vector <std::string> const &toks)
  {
    std::string const &c = toks[0];
    auto a = kv (toks);
    if (c == "voc")
      {
	cur_voc = get_voc (toks.at (1));
	fprintf (out, "ok\n");
      }
    else if (c == "sign")
      {
	show_sign = toks.at (1) == "1";
	fprintf (out, "ok\n");
      }
    else if (c == "open")
      {
	errbox eb;
	std::string path = unhex (a["path"]);
	zw_value *v = a.count ("raw")
	  ? zw_value_init_dwarf_raw (path.c_str (), 0, &eb.e)
	  : zw_value_init_dwarf (path.c_str (), 0, &eb.e);
	if (v == nullptr)
	  {
	    if (eb.e == nullptr || eb.msg ().empty ())
	      fprintf (out, "CONTRACT open-null-without-message\n");
	    fprintf (out, "err %s\n", hex (eb.msg ()).c_str ());
	  }
	else
	  {
	    if (dwarfs.count (a["id"]))
	      zw_value_destroy (dwarfs[a["id"]]);
	    dwarfs[a["id"]] = v;
	    auto w = value::as <value_dwarf> (v);
	    int n = atoi (a["id"].c_str () + 1);
	    dwctx_ids[w->get_dwctx ().get ()] = n;
	    fprintf (out, "ok f%d\n", n);
	  }
      }
    else if (c == "close")
      {
	auto it = dwarfs.find (a["id"]);
	if (it != dwarfs.end ())
	  {
	    auto w = value::as <value_dwarf> (it->second);
	    dwctx_ids.erase (w->get_dwctx ().get ());
	    zw_value_destroy (it->second);
	    dwarfs.erase (it);
	  }
	fprintf (out, "ok\n");
      }
    else if (c == "run")
      cmd_run (a);
    else if (c == "parselen")
      cmd_parselen (a);
    else if (c == "qrun")
      {
	// Like run, but with queries compiled earlier (qparse): q=<qid> [p=<qid>] [i=<init>] [lim=N]
	long lim = a.count ("lim") ? atol (a["lim"].c_str ()) : 100000;
	std::string why;
	zw_stack *init = init_stack (a.count ("i") ? a["i"] : "-", why);
	if (init == nullptr)
	  fprintf (out, "ierr %s\n", hex (why).c_str ());
	else
	  {
	    zw_query *q = queries.at (a["q"]);
	    if (! a.count ("p"))
	      run_on (q, init, lim);
	    else
	      {
		errbox eb2;
		zw_result *res = zw_query_execute (queries.at (a["p"]), init, &eb2.e);
		assert (res != nullptr);
		while (true)
		  {
		    zw_stack *o = nullptr;
		    if (! zw_result_next (res, &o, &eb2.e))
		      {
			fprintf (out, "perr %s\n", hex (eb2.msg ()).c_str ());
			break;
		      }
		    if (o == nullptr)
		      break;
		    fprintf (out, "g %s\n", canon_stack (*o).c_str ());
		    run_on (q, o, lim);
		    zw_stack_destroy (o);
		  }
		zw_result_destroy (res);
	      }
	    zw_stack_destroy (init);
	  }
      }
    else if (c == "dumpvoc")
      cmd_dumpvoc ();
    else if (c == "tree")
      cmd_tree (a);
    else if (c == "qparse")
      {
	errbox eb;
	zw_query *q = parse (unhex (a["q"]), a.count ("nosimp"), &eb.e);
	if (q == nullptr)
	  fprintf (out, "qerr %s\n", hex (eb.msg ()).c_str ());
	else
	  {
	    queries[a["id"]] = q;
	    fprintf (out, "ok\n");
	  }
      }
    else if (c == "qdestroy")
      {
	zw_query_destroy (queries.at (a["id"]));
	queries.erase (a["id"]);
	fprintf (out, "ok\n");
      }
    else if (c == "mkstack")
      {
	// Stack = first result of prefix P on the initial stack I.
	std::string why;
	zw_stack *init = init_stack (a.count ("i") ? a["i"] : "-", why);
	errbox eb;
	zw_query *p = init ? parse (unhex (a["p"]), false, &eb.e) : nullptr;
	zw_stack *o = nullptr;
	if (p != nullptr)
	  {
	    zw_result *res = zw_query_execute (p, init, &eb.e);
	    if (res != nullptr)
	      {
		zw_result_next (res, &o, &eb.e);
		zw_result_destroy (res);
	      }
	    zw_query_destroy (p);
	  }
	if (init)
	  zw_stack_destroy (init);
	if (o == nullptr)
	  fprintf (out, "err %s\n", hex (why + eb.msg ()).c_str ());
	else
	  {
	    if (stacks.count (a["id"]))
	      zw_stack_destroy (stacks[a["id"]]);
	    stacks[a["id"]] = o;
	    fprintf (out, "ok %s\n", canon_stack (*o).c_str ());
	  }
      }
    else if (c == "showstack")
      fprintf (out, "ok %s\n", canon_stack (*stacks.at (a["id"])).c_str ());
    else if (c == "sdestroy")
      {
	zw_stack_destroy (stacks.at (a["id"]));
	stacks.erase (a["id"]);
	fprintf (out, "ok\n");
      }
    else if (c == "exec")
      {
	errbox eb;
	zw_result *r = zw_query_execute (queries.at (a["q"]),
					 stacks.at (a["s"]), &eb.e);
	if (r == nullptr)
	  fprintf (out, "e %s\n", hex (eb.msg ()).c_str ());
	else
	  {
	    results[a["id"]] = r;
	    fprintf (out, "ok\n");
	  }
      }
    else if (c == "pull")
      {
	errbox eb;
	zw_stack *o = nullptr;
	bool ok = zw_result_next (results.at (a["id"]), &o, &eb.e);
	if (! ok)
	  fprintf (out, "e %s\n", hex (eb.msg ()).c_str ());
	else if (o == nullptr)
	  fprintf (out, "end\n");
	else
	  {
	    fprintf (out, "r %s\n", canon_stack (*o).c_str ());
	    if (a.count ("keep"))
	      {
		// the yielded stack outlives its result set (and query)
		if (stacks.count (a["keep"]))
		  zw_stack_destroy (stacks[a["keep"]]);
		stacks[a["keep"]] = o;
	      }
	    else
	      zw_stack_destroy (o);
	  }
      }
    else if (c == "rdestroy")
      {
	zw_result_destroy (results.at (a["id"]));
	results.erase (a["id"]);
	fprintf (out, "ok\n");
      }
    else if (c == "allocs")
      {
#if HAVE_SAN
	fprintf (out, "ok %zu\n", __sanitizer_get_current_allocated_bytes ());
#else
	fprintf (out, "ok 0\n");
#endif
      }
    else if (c == "leakcheck")
      {
#if HAVE_SAN
	int r = __lsan_do_recoverable_leak_check ();
	fprintf (out, "ok %d\n", r);
#else
	fprintf (out, "ok 0\n");
#endif
      }
    else if (c == "ping")
      fprintf (out, "ok\n");
    else
      fprintf (out, "unknown-command\n");
  }
}

int
main (int argc, char **argv)
{
  // Protocol output on a private dup of stdout; fd 1 and fd 2 are pointed
  // to a memfd so that whatever the library prints is captured per command.
  int ofd = dup (1);
  out = fdopen (ofd, "w");
  // A file named by ZWDRV_ERRFILE survives a crash, so the client can
  // attribute the last words of the process (assert / hook messages).
  if (char const *ef = getenv ("ZWDRV_ERRFILE"))
    errfd = open (ef, O_RDWR | O_CREAT | O_TRUNC, 0600);
  else
    errfd = memfd_create ("zwdrv-stderr", 0);
  if (errfd < 0)
    {
      perror ("errfd");
      return 3;
    }
  dup2 (errfd, 2);
  dup2 (errfd, 1);
  // O_APPEND is not set: all writers share one file offset (same open file
  // description), so writes are sequential.
  setvbuf (stderr, nullptr, _IONBF, 0);

  cur_voc = get_voc (argc > 1 ? argv[1] : "core");
  bool track = getenv ("ZWDRV_TRACK_ALLOC") != nullptr;

  // Per-command watchdog (CPU seconds): a diverging evaluation must not
  // eat the machine.  The client attributes the death to the command.
  int cmd_timeout = getenv ("ZWDRV_CMD_TIMEOUT")
    ? atoi (getenv ("ZWDRV_CMD_TIMEOUT")) : 10;
  signal (SIGALRM, [] (int) {
      static char const msg[] = "ZWDRV watchdog: command exceeded its time limit\n";
      if (write (2, msg, sizeof msg - 1) < 0) {}
      _exit (124);
    });

  std::string line;
  while (std::getline (std::cin, line))
    {
      alarm (cmd_timeout);
      std::vector <std::string> toks;
      std::stringstream ss (line);
      std::string t;
      while (ss >> t)
	toks.push_back (t);
      if (toks.empty ())
	continue;
      if (toks[0] == "quit")
	break;
      size_t before = 0;
#if HAVE_SAN
      if (track)
	before = __sanitizer_get_current_allocated_bytes ();
#endif
      dispatch (toks);
      alarm (0);
      long delta = 0;
#if HAVE_SAN
      if (track)
	delta = (long) __sanitizer_get_current_allocated_bytes ()
	  - (long) before;
#endif
      {
	std::string err = take_stderr ();
	if (! err.empty ())
	  fprintf (out, "s %s\n", hex (err).c_str ());
      }
      if (track)
	fprintf (out, "m %ld\n", delta);
      fprintf (out, ".\n");
      if (toks[0] != "run" && toks[0] != "qrun" && toks[0] != "parselen" && toks[0] != "pull")
	fflush (out);
      else if (std::cin.rdbuf ()->in_avail () <= 0)
	fflush (out);
    }
  fflush (out);

  // Orderly teardown so that LSan sees only genuine leaks.
  for (auto &r: results)
    zw_result_destroy (r.second);
  for (auto &q: queries)
    zw_query_destroy (q.second);
  for (auto &s: stacks)
    zw_stack_destroy (s.second);
  for (auto &d: dwarfs)
    zw_value_destroy (d.second);
  for (auto &v: vocs)
    zw_vocabulary_destroy (v.second);
  return 0;
}
