#!/usr/bin/env python3
"""Regenerates /verif/MANIFEST.json from the table below."""
import json, os
V = os.path.dirname(os.path.dirname(os.path.abspath(__file__)))
props = [json.loads(l) for l in open(os.path.join(V, "properties.jsonl"))]

CHECKS = {
 "C08": dict(cat="model_checking", ref="DESIGN.md §3 C08",
   text="Exhaustive evaluation of every ordered operand pair of a boundary lattice (all 2^k, 2^k±1, k≤64, both signs, limits and neighbours; both internal representations of every value below 2^63) under all five operators, unary minus, printing and six comparisons on the real integer class, plus the same arithmetic through literals in every radix and the engine, each result compared with exact integers. Arithmetic is a pure function of two operands, so complete enumeration of the boundary lattice is the right level: every branch of the sign/magnitude case analysis is selected by some lattice pair.",
   note="Python integers are the reference; operands outside the lattice (random 64-bit values) are not explored; int_harness links /repo/libzwerg/int.cc unmodified.",
   tech="bounded exhaustive enumeration of operand pairs on the implementation vs exact-integer reference model"),
 "C16": dict(cat="model_checking", ref="DESIGN.md §3 C16",
   text="Explicit-state breadth-first search on the real coverage class: from the empty set, add/remove of every interval (incl. zero length) of an N-address universe until no new representation appears, at four bases (low, straddling 2^32, straddling 2^63, ending at 2^64-2). In every state the representation invariant (sorted, disjoint, non-adjacent, non-empty runs) and the denoted bitmap are checked, so the number of states must be exactly 2^N; every state answers all interval queries and every ordered pair of states goes through union, difference, intersection, containment, overlap and equality against the bitmap. The Zwerg words are then run on all sets and all ordered pairs of a smaller universe built in three different ways. The class is a small state machine over interval lists, which BFS to a fixpoint covers completely for the universe size.",
   note="Bitmap model; N=8/10 (class) and 5/7 (engine) addresses; zero-length is_covered/is_overlap and find_holes are unreachable from Zwerg and not judged.",
   tech="explicit-state BFS to fixpoint over the real class with bitmap reference model; exhaustive pairs through the engine"),
 "C01": dict(cat="model_checking", ref="DESIGN.md §2.2, C01",
   text="Stateless exhaustive exploration of the real engine: every Z_3 transformer program up to 4 nodes (5 in the thorough tier) over 7 atoms, 14 unary, 6 binary and 1 ternary constructor (closures, ALT, OR, captures, assertions, binders, let, blocks, format strings with one and two splices, if) plus every constructor chain of depth 3 (4), each run on every single input and behind every small stream of inputs. Two oracles on every execution: the union law evaluated on the implementation alone (results of `G T` = multiset union of T on each element of G), and agreement with a reference interpreter written from doc/syntax.rst, ordered wherever the documentation fixes the order. Per-input state going stale is a property of (program shape x input history), which this enumeration covers completely up to the bound.",
   note="Reference interpreter lib/zwmodel.py is trusted to implement the documentation; orders left open by the documentation are compared as multisets; programs above the size bound (outside the chain family) are not explored; 5-node programs run on the non-sanitized engine build.",
   tech="bounded exhaustive enumeration of programs x inputs on the implementation; metamorphic union law + reference-model comparison"),
 "C10": dict(cat="model_checking", ref="DESIGN.md §2 C10",
   text="Every digraph on 3 nodes with out-edge lists of length <= 2 and on 4 nodes with lists of length <= 1 (thorough: 3 nodes/length 3, 4 nodes/length 2; order and duplicates kept, so self-loops, cycles, diamonds and multi-yield bodies all occur) is turned into a closure body; every start node, eleven closure forms and nestings (E*, E+, (E*)*, (E+)*, (E*)+, ((E*)*)*, E**, E+*, ...), streams of inputs with repeats and two-slot stacks are executed on the engine, which is cut off after |reachable|+1 results. Oracle: Python graph reachability, each reachable stack exactly once per input, plus the laws E? = (E,) and E+ = distinct(E E*) on the implementation alone. Closure evaluation is a worklist algorithm over a seen-set, whose behaviours are determined by the graph shape; enumerating all small graphs covers every shape of revisit.",
   note="Termination is decided within the enumerated graphs only (bounded: one result too many or a watchdog expiry is a violation); large families run on the non-sanitized engine build.",
   tech="bounded exhaustive enumeration of graphs x start states x closure forms on the implementation vs reachability reference"),
 "C04": dict(cat="model_checking", ref="DESIGN.md §2 C04",
   text="Exhaustive enumeration of sub-expressions E (all expressions up to 3 nodes, 4 in the thorough tier, over 19 atoms of every stack effect incl. multi-yield, soft-failing, type-mismatching, closure and block atoms, and 8 combinators) in the forms ?(E), !(E), E op 1, 1 op E, [E], let X := E; and let X := E; X, each on every stack of depth 0-2 (and some of depth 3) over a value pool; every ?w/!w pair of the core and DWARF vocabularies on one value of every type; DWARF traversals (child, parent, attribute, @AT_x, unit, root, abbrev, closures of them) on every DIE of sample files. Metamorphic oracles evaluated on the implementation alone for every single input: output is nothing or the identical stack (depth, values, positions); exactly one of ?X/!X yields (neither only with a diagnostic, never both); let multiplies the unchanged stack by the number of results of E; [E] appends exactly the sequence of E's top values.",
   note="Executions that fail hard (API error) or diverge are outside the laws and counted; quick tier samples every 4th DW_* predicate word, thorough takes all.",
   tech="bounded exhaustive enumeration of sub-expressions x forms x input stacks on the implementation; metamorphic partition/identity laws"),
 "C03": dict(cat="model_checking", ref="DESIGN.md §2 C03",
   text="Exhaustive enumeration of binder programs: 40+ binder forms (let with one and two names, (|A|..), (|A B|..), [|A|..], ?(|A|..), {|A|..}, blocks with 0-3 up-values read in different orders than bound, blocks bound to names and applied once and twice, nested blocks, rebinding, bindings made inside plain parentheses / ?( ) / !( ) / ALT and OR branches / if arms / captures / closures / infix operands / blocks / binder parentheses) and 16 reading contexts (capture, ?( ), !( ), both infix operands, ALT and OR branches, then/else arms, condition, closure body, format splice, plain parentheses, twice), nested to depth 2 (quick, 119 355 programs) and a stride sample of depth 3 (thorough, ~1 M programs), with bound expressions that yield once or twice. Ill-scoped programs are included. The reference interpreter with its static scope analysis predicts the ordered results or the compile-time error class (rebound / unbound) of every program.",
   note="The scope rules implemented by the reference are those of doc/syntax.rst 'Name binding'; names bound inside format splices are not generated; programs whose result order is not fixed by the documentation are compared as multisets.",
   tech="bounded exhaustive enumeration of binder programs on the implementation vs reference interpreter with static scope analysis"),
 "C11": dict(cat="model_checking", ref="DESIGN.md §2 C11",
   text="(a) Explicit-state BFS over the real stack class (push of each of four value types, pop, drop 1-3, copy) to depth 7 (8 thorough): in every reachable state the cached type profile used by overload dispatch equals a recomputation from the top slots, for the object and its copy. (b) Every core word (19 unary, 20 binary, rot) applied to every operand tuple of a 30-value pool (boundary integers in every radix domain, strings with NUL/high bytes/regex metacharacters, nested and heterogeneous sequences, a closure, a boolean; 45 values thorough) reached through 8-14 history templates (depth 0-7, fillers of each type, drop/swap/rot/over/dup) is run on the engine and compared with the list/bytes reference model including positions and diagnostics; outcomes of the same word on the same operands must agree across histories.",
   note="Reference model per word docstrings; ?match judged as POSIX ERE search via libc; comparison across types is C09's.",
   tech="explicit-state BFS over the stack class + bounded exhaustive words x operands x histories vs reference model"),
 "C12": dict(cat="model_checking", ref="DESIGN.md §3 C12",
   text="Explicit enumeration of API histories over up to three simultaneously live result sets: executions are (compiled query object, input stack) pairs drawn from the query under test on two inputs, a second object compiled from the same text and a different corpus query; actions are execute, pull one result, destroy (before, at or after exhaustion, incl. pulling past the end). Every history with at most d deviations from 'run each to exhaustion in turn' (d = 1 for three executions and 2 for two in the quick tier; 2 and 3 thorough) is replayed on the real API for each of 32 core queries covering every stateful construct and nestings of them, and 17 DWARF queries over producers with caches with one Dwarf value shared by all executions. Oracle at every pull: equals the k-th result of a fresh-process parse-and-run; at the end both input stacks are unchanged.",
   note="Histories of one query share a driver process (process-wide state accumulates, which is intended); no abstract-state merging is used, every history is executed; DWARF queries are compiled once per execution set.",
   tech="explicit enumeration of API call histories (deviation-bounded) replayed on the implementation vs fresh-run reference"),
 "C15": dict(cat="model_checking", ref="DESIGN.md §2 C15",
   text="Every program of the C01 corpus up to 3 nodes (4 thorough) on three inputs, of the C03 binder corpus of depth 1 (a quarter of depth 2 thorough) and of a literal/format/infix corpus is rewritten by every applicable documented equivalence at every applicable position: seven layouts (blanks, newlines, tabs, three comment styles) at all token boundaries and at each boundary, redundant parentheses around every sub-program, every split point and escape spelling of string literals incl. raw strings and continuation, %s/%d/%x/%o/%b vs %( %), E? vs (E,), if vs (?(C) A, !(C) B), ?(E) vs ([E] != []), infix vs its ?(let..) expansion; and compiled with tree::simplify skipped. Both sides run on the engine and must give identical results or the same error.",
   note="No model: both sides of each equivalence are executions of the implementation; equivalences that reorder alternatives are compared as multisets per input.",
   tech="bounded exhaustive program x rewrite x position enumeration; differential execution on the implementation"),
 "C09": dict(cat="model_checking", ref="DESIGN.md §3 C09",
   text="A pool of ~120 distinct values of every documented type (integers in every arithmetic domain incl. positions and limits, booleans, slot-type constants, named constants of 20 DW_*/ELF families with equal and different numbers, byte strings with NUL and high bytes, nested and heterogeneous sequences, address sets, and DWARF values from three sample files: DIEs raw/cooked/through import routes, attributes, units, abbreviations and their attributes, location-list elements and operations, symbols and their label/binding/visibility constants) is built on the engine; for ALL ordered pairs the twelve comparison words and six infix forms are evaluated, giving a complete outcome matrix. Decided on the matrix: complementarity of ?w/!w, trichotomy, alias agreement, infix = word, converse, symmetry, copy equality, the documented orders, the element-wise law ([a] vs [b] orders like a vs b) and, over ALL triples, transitivity of < and == and compatibility of < with ==.",
   note="Orders between different types / unrelated domains are only required to be consistent; closure type excluded as stated; one recorded finding (DIE import-path wildcard equality).",
   tech="complete pairwise outcome matrix on the implementation; order axioms decided exhaustively over all pairs and triples"),
 "C13": dict(cat="model_checking", ref="DESIGN.md §3 C13",
   text="Runtime monitors on every execution of every check (ASan, UBSan fatal, asserts enabled, and the DWGREP_VERIF shadow map that aborts when an operator state is constructed twice, used before construction, destroyed twice, overlaps a live state in a union area or is still alive when the state area dies), plus own enumeration: every program of a corpus of stateful constructs and every Z_3 transformer up to 3 nodes abandoned after k pulls for every k; every rejected text of the token-string space; values outliving their query and result set. Leaks are decided exactly: live-heap delta per case from the allocator, confirmed by LeakSanitizer in a fresh process.",
   note="One recorded finding (exception-path leaks of rejected queries); coverage-guided mutation is sampling and not used.",
   tech="bounded exhaustive enumeration of abandonment points and rejected texts under sanitizers + life-cycle shadow-map hook with exact heap accounting"),
 "C14": dict(cat="model_checking", ref="DESIGN.md §3 C14",
   text="Exhaustive enumeration of query texts given with explicit length from an exact-size heap buffer: all token strings up to length 3 over a 43-token alphabet covering every lexer rule and start condition and up to length 4 over a 26-token core (4 and 5 in the thorough tier), joined with and without blanks (~1.2 M texts quick); all byte strings of length <= 2 over all 256 bytes and of length 3 over 40 bytes; integer literals over prefix x sign x digit-string classes; unterminated strings/splices/comments at nesting <= 3 and NUL bytes. Oracle at the C boundary: a query XOR (NULL, error, non-empty message); accepted queries are executed on [] and [1] with every pull checked (true, or false with error set); run-time failures at every pull index surface through zw_result_next; the CLI turns them into a stderr message and exit status 2.",
   note="Accepted queries that diverge when executed (unbalanced closure bodies) are cut by a watchdog and counted, not judged.",
   tech="bounded exhaustive enumeration of input texts on the implementation under sanitizers; API contract oracle"),
 "C02": dict(cat="model_checking", ref="DESIGN.md §4 C02",
   text="Every ordered forest of up to 6 DIEs (7 thorough) split over 1-3 units - single-root units, deep chains, wide fans, last child of last unit - times every subset of leaves that carry the children flag with an immediate null entry, times DWARF version {2,3,4,5} x {32,64}-bit offsets, with and without DW_AT_sibling and with 0-3 attributes per DIE from a menu of common forms, is written as an ELF file (13 568 files quick, 60 784 thorough) and queried with a fixed battery: raw unit, raw entry, unit entry, root, parent, child, ?haschildren, !haschildren, label, offset, attribute, attribute label, attribute form, ?root, unit. Every result is compared with the generator's own model (offsets assigned by its layout), so nothing invented, dropped, duplicated or mis-parented escapes within the bound.",
   note="lib/elfgen.py is the trusted ground truth (validated against an independent reader, readelf and libdw by lib/test_elfgen.py).",
   tech="bounded exhaustive enumeration of input shapes; generated inputs with ground truth by construction; result-by-result comparison on the implementation"),
 "C05": dict(cat="model_checking", ref="DESIGN.md §4 C05",
   text="All import graphs over 2 compile units and 3 partial units (every DAG of DW_TAG_imported_unit edges among partial units; each partial unit imported into CU1 not at all / at top level / nested in a namespace / twice; CU2 importing none or all (all subsets thorough); imports of partial units at top level or one level down), 1024 files quick / 4096 thorough, plus 14 sample binaries. On every file, in raw and cooked mode, 20 law queries whose result must be empty are evaluated by the engine on every DIE (child-parent, root = end of parent chain, ?root, unit entry = entry, unit members = root child*, unit lists the DIE, same route twice equal with equal offset/label/attributes) and the exact results of entry, unit, parent, root, unit, parent*-end, ?root and child offsets are compared with the model (imports inlined, import chains carried).",
   note="Law queries rely on the engine's own == (see the recorded C09 finding); generated bodies are small (2 ordinary DIEs per unit, one level of nesting).",
   tech="bounded exhaustive enumeration of import graphs; law queries + model comparison on every DIE"),
 "C06": dict(cat="model_checking", ref="DESIGN.md §4 C06",
   text="(1) On the C05 import family: cooked child = raw children with imports replaced in place, recursively; partial units are not cooked units. (2) Integration: every chain DIE -> up to 2 hops (3 thorough) through DW_AT_specification / DW_AT_abstract_origin in every kind sequence, within one unit (ref4) and alternating between two units (ref_addr), times every presence pattern of three attribute names over all hops (8^(hops+1) chains per file), with DW_AT_declaration / DW_AT_sibling sprinkled on intermediate DIEs and the link attribute at every position: cooked attribute lists, @AT_name, @AT_decl_line, name, ?AT_external compared with the model (own attributes in order, then integrated ones it lacks, nearest hop wins, never sibling/declaration). (3) Sugar laws for every ?TAG_x / ?AT_x / ?FORM_x / ?OP_x word of the vocabulary (479 words) evaluated by the engine on every DIE, attribute and location operation of sample files, and @AT_x = attribute ?AT_x cooked value, ?AT_x <=> attribute ?AT_x, name = @AT_name on every generated DIE.",
   note="Each DIE carries at most one of the two link attributes (chains, as the property says).",
   tech="bounded exhaustive enumeration of attribute presence patterns over reference chains; model comparison + law queries"),
 "C07": dict(cat="model_checking", ref="DESIGN.md §4 C07",
   text="Enumerated product, packed into one file per DWARF version 2-5 (11 935 cases): DW_AT_const_value on variable / template_value_parameter / enumerator x 12 forms (data1/2/4/8, sdata, udata, block1 of 1/2/3/4/8 bytes, implicit_const) x 21 type configurations (signed, unsigned, boolean, signed/unsigned char, UTF, address, float, pointer, typedef/const/volatile chains of length 1-3, enum with signed/unsigned underlying type, enum without one whose enumerators are all sdata / all udata / mixed, no type) x boundary values; every attribute with a constant domain of its own x 5-6 forms x known/unknown values; unsigned and signed attributes at width boundaries; line/column numbers; addresses, flags, strings, six reference forms, location expressions; DW_AT_decl_file / call_file through generated line tables, own and integrated over one and two hops across units. Oracle: the decoding table of the property statement; uninterpreted combinations must give an error, a diagnostic or the raw bytes.",
   note="Compiler-produced objects are not decoded independently here; only generated inputs with known truth.",
   tech="bounded exhaustive enumeration of (attribute, form, type configuration, boundary value); decoding-table oracle"),
 "C17": dict(cat="model_checking", ref="DESIGN.md §4 C17",
   text="Generated location attributes: every entry of a 106-entry opcode menu (every operand class: none, 1/2/4/8-byte and LEB unsigned, signed, address, two operands, block, type-DIE references in GNU and DWARF 5 spellings) at boundary operands, alone, second and in triples, as single expressions and as lists in .debug_loc / .debug_loclists with 0-3 ranges and base-address entries, for DWARF 2-5; and 32 (64) abbreviation layouts (private / shared / unshared tables, DW_FORM_indirect, childless-with-flag). Compared with the model: elements, raw elements, lengths, addresses, per-operation offset / label / value / position, relem labels and positions, abbrev code / label / offset / ?haschildren / attribute (name, form, offset) of every DIE, one abbreviation unit per distinct table listing each abbreviation once, and laws (length = #elem, @AT_location = attribute value, abbreviation labels = DIE attribute labels, tag and children flag match, cooked = raw).",
   note="Operands that dwgrep leaves to libdw-internal pointers (const_type, entry_value, second operand of implicit_pointer) are not compared.",
   tech="bounded exhaustive enumeration of opcodes x operand boundaries and abbreviation layouts; model comparison"),
 "C18": dict(cat="model_checking", ref="DESIGN.md §4 C18",
   text="Generated symbol tables with one symbol per (type 0-15 x binding 0-15 x visibility 0-3) = 1024 plus undefined / common / absolute / section / nameless / 300-character / non-ASCII / huge-valued symbols, for the four machines with their own constant family (ARM, SPARC, PARISC, MIPS) and three without, as ET_REL and ET_EXEC (ET_DYN thorough): symbol list, order, positions, name, address, size, label, binding, visibility of every entry compared with the stored fields; renderings of every code that elf.h names compared with elf.h parsed independently of known-elf.awk; machine-specific codes of different machines never equal, common codes equal; sample objects of four architectures compared with readelf -sW.",
   note="Codes without a name in elf.h only have to keep their numeric value.",
   tech="exhaustive enumeration of symbol field combinations; generated inputs with ground truth; cross-machine equality matrix"),
 "C19": dict(cat="model_checking", ref="DESIGN.md §5 C19",
   text="Every subset of {-q -s -c -H -h} x 10 queries (0 / 1 / 3 results, 2-slot stacks, compile error, run-time error after 0 / 1 / 2 results, soft error, argument-consuming) x file lists of length 0-2 over {valid1, valid2, missing, non-ELF} (0-3 thorough) x 7 argument sets (-a, --a yielding 0 / 1 / 2 values, two multi-valued --a) with the query channel (-e, -f file, -f -, positional) rotated (all four per case thorough): 26 848 invocations quick. Exit status, stdout and stderr of the built dwgrep binary are compared with a contract computed from the library driver's results for the same query and input stack: status 2/0/1 rule, -q rule and empty stdout, -c lines, row-major order of file x argument combinations, header text, -H/-h, -a X = --a '\"X\"', channel equivalence, unopenable files reported and skipped, -s.",
   note="One eighth of the invocations run on the ASan/UBSan build of the CLI, the rest on the plain build; under -q only 'zero iff some result' is demanded.",
   tech="exhaustive enumeration of option x query x input configurations; contract table computed from the library driver"),
 "C20": dict(cat="model_checking", ref="DESIGN.md §3 C20",
   text="All 626 named constants of the vocabulary: NAME value equals the number the system headers define (parsed independently of the awk scripts), NAME \"%s\" is a word that evaluates to an equal constant and is NAME itself unless the headers alias the number. A 180-value boundary lattice (all 2^k, 2^k±1, limits; 389 thorough) x {dec, hex, oct, bin} x sign: the texts produced by \"%s\", %d %x %o %b and by the CLI's full rendering read back as literals of equal value and the same domain. All byte strings of length <= 2 (3 thorough) over a 15-byte alphabet (quote, backslash, percent, NUL, newline, tab, control, DEL, high bytes, digits, x, blank) inside sequences through the CLI's brief renderer: the printed quoted literal reads back as the same bytes and no two strings print alike.",
   note="Brief renderings of integers are not required to read back (the property states it for strings only).",
   tech="exhaustive enumeration of constants / boundary integers / short byte strings; print -> parse round trip on the implementation"),
}
NOT_YET = "check under construction in this session; not claimed until it has run to completion on the unchanged tree"

def main():
    checks, na = [], []
    for p in props:
        pid = p["id"]
        c = CHECKS.get(pid)
        if c is None:
            na.append({"property_id": pid, "reason": NOT_YET})
            continue
        checks.append({
            "property_id": pid,
            "quick_cmd": "./vcheck %s --tier quick" % pid,
            "thorough_cmd": "./vcheck %s --tier thorough" % pid,
            "evidence_file": "/verif/evidence/%s.json" % pid,
            "replay_cmd_template": "./vcheck %s --replay {path}" % pid,
            "engine": "vcheck",
            "level_claimed": {"category": c["cat"], "text": c["text"], "design_ref": c["ref"]},
            "level_note": c["note"],
            "technique": c["tech"],
        })
    m = {
        "version": 1,
        "setup_cmd": "python3 lib/build.py --all",
        "hooks": {
            "guard": "DWGREP_VERIF",
            "enable": "lib/build.py compiles /repo's working tree with -DDWGREP_VERIF (ASan+UBSan 'san' variant and plain 'fast' variant, asserts on) into /verif/.build, keyed by content hash",
            "baseline_off_cmd": "sh /verif/tools/baseline_off.sh",
            "source_commits": ["03d1460"],
            "add_only": True,
        },
        "engines": [{
            "name": "vcheck", "path": "/verif/vcheck",
            "serves_properties": [c["property_id"] for c in checks],
            "kind_free_text": "stateless bounded-exhaustive explorers over the real code (zwdrv line-protocol driver + direct-call harnesses), Python reference models, ASan/UBSan/LSan + scon life-cycle hook as monitors",
        }],
        "checks": checks,
        "not_applicable": na,
        "notes": "All verdicts come from complete enumeration of a stated finite space; see DESIGN.md. known_findings.json lists recorded and fixed defects.",
    }
    with open(os.path.join(V, "MANIFEST.json"), "w") as f:
        json.dump(m, f, indent=1)

main()
