#!/bin/bash
# seedsweep.sh [tier]: re-run every kept seeded change against the checks recorded as catching it.
# For each /verif/seeded/<name>: apply patch.diff to /repo, run the check, expect exit 1 with a VIOLATION line, revert.
# Evidence files are saved and restored, so the committed evidence keeps describing the unchanged tree.
T=${1:-quick}
cd /verif
mkdir -p .build/sweep
fail=0
for d in seeded/*/; do
  n=$(basename $d)
  for c in $(python3 -c "import json;print(' '.join(json.load(open('$d/meta.json'))['caught_by']))"); do
    if ! git -C /repo diff --quiet; then echo "SWEEP: /repo is not clean, stopping"; exit 2; fi
    cp evidence/$c.json .build/sweep/$c.before.json 2>/dev/null
    git -C /repo apply /verif/$d/patch.diff || { echo "SWEEP $n $c: patch does not apply"; fail=1; continue; }
    timeout 3000 ./vcheck $c --tier $T > .build/sweep/$n.$c.log 2>&1; rc=$?
    git -C /repo checkout -- .
    cp .build/sweep/$c.before.json evidence/$c.json 2>/dev/null; rm -f replay/$c-*.json
    nv=$(grep -c "^VIOLATION" .build/sweep/$n.$c.log)
    if [ $rc -eq 1 ] && [ $nv -gt 0 ]; then echo "SWEEP $n $c: caught ($nv violation lines)"; else echo "SWEEP $n $c: MISSED rc=$rc"; fail=1; fi
  done
done
exit $fail
