#!/bin/sh
# Rebuild the pinned configuration (guard OFF: no -DDWGREP_VERIF) and run the
# repository's own suite.  The libzwerg.so link step fails in the pinned Ninja
# configuration with or without the hook commits (version script path), so the
# build keeps going (-k 0); the 66 baseline tests live in the 7 test binaries.
cmake --build /repo/_build -- -k 0 >/dev/null 2>&1
exec ctest --test-dir /repo/_build -j8 --timeout 900 "$@"
