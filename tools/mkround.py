#!/usr/bin/env python3
"""mkround.py <prop>:<suffix> ... : follow-up seeding prompts that list, from the table in DESIGN.md section 14, every change
already studied for the property ("name [what it needs to manifest]") and ask for something different in kind and place.
Needs the base prompt /root/seed_prompt_<prop>.txt (first-round prompt with the property record); calls mkseedprompt.py."""
import re, sys, subprocess, os
V = os.path.dirname(os.path.dirname(os.path.abspath(__file__)))
design = open(os.path.join(V, "DESIGN.md")).read()
rows = re.findall(r'^\| ([^|]+?) \| ([^|]+?) \| ([^|]+?) \| ([^|]+?) \|$', design, re.M)
byprop = {}
for name, needs, caught, first in rows:
    m = re.match(r'(\S+) \((C\d\d)\)$', name.strip()) or None
    if m:
        byprop.setdefault(m.group(2), []).append((m.group(1), needs.strip()))
        continue
    m = re.match(r'(C\d\d)-(\S+)$', name.strip())
    if m:
        byprop.setdefault(m.group(1), []).append((m.group(2), needs.strip()))
for arg in sys.argv[1:]:
    prop, suf = arg.split(":")
    studied = "; ".join("%s [%s]" % (n, d) for n, d in byprop.get(prop, []))
    cons = ("%d changes have already been studied and must not be repeated (name [what it needs to manifest]): %s. "
            "Pick something DIFFERENT in kind and location, anywhere in the code the property's anchors name." % (len(byprop.get(prop, [])), studied))
    subprocess.check_call(["python3", os.path.join(V, "tools", "mkseedprompt.py"), prop, suf, cons])
