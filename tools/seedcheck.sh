#!/bin/bash
# seedcheck.sh <seed-id> <check-id> [tier]: confirm a seeded change (worktree /tmp/wt-<seed-id>, outputs /tmp/seed-out/<seed-id>)
S=$1; C=$2; T=${3:-quick}
WT=/tmp/wt-$S; OUT=/tmp/seed-out/$S
echo "== tests in modified worktree"
(cd $WT && cmake --build _build -- -k 0 >/dev/null 2>&1; ctest --test-dir _build -j8 2>&1 | grep -E "tests passed|Passed|Failed" | tr '\n' ' '); echo
echo "== demo on modified worktree (expect non-zero)"
(cd $OUT && timeout 900 bash demo.sh $WT >/tmp/seed-out/$S/demo_mod.log 2>&1; echo "rc=$?"; tail -2 /tmp/seed-out/$S/demo_mod.log)
echo "== demo on unmodified /repo (expect 0)"
(cd $OUT && timeout 900 bash demo.sh /repo >/tmp/seed-out/$S/demo_orig.log 2>&1; echo "rc=$?"; tail -2 /tmp/seed-out/$S/demo_orig.log)
echo "== my check $C ($T) with the patch applied to /repo (expect exit 1)"
cp /verif/evidence/$C.json /tmp/seed-out/$S/evidence_before.json 2>/dev/null
git -C /repo apply $OUT/patch.diff && (cd /verif && timeout 3000 ./vcheck $C --tier $T > /tmp/seed-out/$S/vcheck_$C.log 2>&1; echo "vcheck rc=$?"; grep -c "^VIOLATION" /tmp/seed-out/$S/vcheck_$C.log; grep -A1 "^VIOLATION" /tmp/seed-out/$S/vcheck_$C.log | head -4 | cut -c1-400; tail -1 /tmp/seed-out/$S/vcheck_$C.log | cut -c1-300)
cp /verif/evidence/$C.json /tmp/seed-out/$S/evidence_with_patch.json 2>/dev/null
cp /tmp/seed-out/$S/evidence_before.json /verif/evidence/$C.json 2>/dev/null; rm -f /verif/replay/$C-*.json
git -C /repo checkout -- . ; git -C /repo status --short | head -3
