#!/usr/bin/env python3
"""mkseedprompt.py <prop> <suffix> <constraint text>: derive a follow-up seeding prompt from /root/seed_prompt_<prop>.txt
(writes /root/seed_prompt_<prop><suffix>.txt, creates the worktree /tmp/wt-<prop><suffix> and /tmp/seed-out/<prop><suffix>)."""
import re, subprocess, sys, os
prop, suf, cons = sys.argv[1], sys.argv[2], sys.argv[3]
sid = prop + suf
s = open("/root/seed_prompt_%s.txt" % prop).read()
s = s.replace("/tmp/wt-%s" % prop, "/tmp/wt-%s" % sid).replace("/tmp/seed-out/%s" % prop, "/tmp/seed-out/%s" % sid)
s = s.replace("build an unmodified copy by `git -C /tmp/wt-%s stash` / rebuild / run / `git -C /tmp/wt-%s stash pop` / rebuild" % (sid, sid),
              "build an unmodified copy by saving your change (`git -C /tmp/wt-%s diff > /tmp/seed-out/%s/my.diff`), `git -C /tmp/wt-%s checkout -- .` / rebuild / run / `git -C /tmp/wt-%s apply /tmp/seed-out/%s/my.diff` / rebuild (do NOT use `git stash`: the stash is shared by all worktrees of the repository and other agents work in sibling worktrees)" % (sid, sid, sid, sid, sid))
s = re.sub(r"\n*ADDITIONAL CONSTRAINT:.*?\nDELIVERABLES", "\nDELIVERABLES", s, flags=re.S)
s = s.replace("\nDELIVERABLES", "\n\nADDITIONAL CONSTRAINT: " + cons + "\nDELIVERABLES", 1)
open("/root/seed_prompt_%s.txt" % sid, "w").write(s)
os.makedirs("/tmp/seed-out/%s" % sid, exist_ok=True)
if not os.path.isdir("/tmp/wt-%s" % sid):
    subprocess.check_call(["git", "-C", "/repo", "worktree", "add", "--detach", "-q", "/tmp/wt-%s" % sid, "HEAD"])
print(sid)
