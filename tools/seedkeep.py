#!/usr/bin/env python3
"""seedkeep.py <seed-id> <property> <name> <caught-by-checks comma sep | none> : package a confirmed seeded change under /verif/seeded/<name>/"""
import sys, os, shutil, json, re
sid, prop, name, caught = sys.argv[1:5]
src = "/tmp/seed-out/" + sid
dst = "/verif/seeded/" + name
os.makedirs(dst, exist_ok=True)
for f in os.listdir(src):
    if f.endswith(".log") or f.endswith(".property.json"):
        continue
    if os.path.isfile(os.path.join(src, f)) and os.path.getsize(os.path.join(src, f)) < 2_000_000:
        shutil.copy(os.path.join(src, f), dst)
meta_txt = open(os.path.join(src, "meta.txt")).read() if os.path.exists(os.path.join(src, "meta.txt")) else ""
def tail(p, n=3):
    try:
        return open(p, errors="replace").read().strip().splitlines()[-n:]
    except OSError:
        return []
logs = {}
for c in caught.split(","):
    lp = os.path.join(src, "vcheck_%s.log" % c)
    if os.path.exists(lp):
        t = open(lp, errors="replace").read()
        logs[c] = {"violations": len(re.findall(r"^VIOLATION", t, re.M)), "first": [l[:300] for l in t.splitlines() if l.startswith("  what:")][:2], "summary": t.strip().splitlines()[-1][:300]}
meta = {
    "property": prop,
    "origin": "independent sub-agent given only the property record and a scratch worktree",
    "what_it_needs_to_manifest": meta_txt,
    "confirmed_by_me": {
        "existing_test_suite_with_change": "7 ctest binaries pass, RegressionTests fails as on the baseline (run in the scratch worktree)",
        "demo_on_modified_tree": tail(os.path.join(src, "demo_mod.log")),
        "demo_on_unmodified_tree": tail(os.path.join(src, "demo_orig.log")),
    },
    "checks_run_with_patch_applied_to_repo": logs,
    "caught_by": [] if caught == "none" else caught.split(","),
}
json.dump(meta, open(os.path.join(dst, "meta.json"), "w"), indent=1)
print("kept", dst, meta["caught_by"])
