import sys, time
sys.path.insert(0,'/verif/lib')
import zwgen, zwmodel, build, drv
smax=int(sys.argv[1]) if len(sys.argv)>1 else 3
tab=zwgen.by_size(smax)
print({k:len(v) for k,v in tab.items()})
b=build.build('san',['zwdrv'],quiet=True)['zwdrv']
d=drv.Drv(b,'core')
codes={}
for t in ['T_CONST','T_STR','T_SEQ','T_CLOSURE']:
    r=d.run(t); codes[t]=int(r.results()[0].split(':')[2].split('@')[0])
zwmodel.set_type_codes(codes)
bad=0;n=0;unj=0
t0=time.time()
for size in range(1,smax+1):
    progs=tab[size]
    qs=[zwmodel.render(t) for _,t in progs]
    rs=d.batch([drv.run_cmd(q,p='(0, 1, 2)') for q in qs])
    for (name,t),q,r in zip(progs,qs,rs):
        gs=[]
        for l in r.lines:
            if l.startswith('g '): gs.append([])
            elif l.startswith('r ') and gs: gs[-1].append(l[2:])
            elif gs: gs[-1].append('!'+l)
            else: gs.append(['!'+l])
        for v in range(3):
            n+=1
            try:
                exp,run=zwmodel.run(t,(zwmodel.Cst(v),))
            except zwmodel.Unjudged as e:
                unj+=1
                continue
            got=gs[v] if v<len(gs) else None
            ok = (got==exp) if not run.taint else (got is not None and sorted(got)==sorted(exp))
            if run.wild and got is not None: ok = sorted(map(zwmodel.wild,got))==sorted(map(zwmodel.wild,exp))
            if not ok:
                bad+=1
                if bad<25: print(name,'|',q,'| in',v,'| got',got,'| exp',exp,'taint',run.taint, r.stderr[:100], r.crash and (r.crash[0], r.crash[1][-300:]))
print('cases',n,'bad',bad,'unjudged',unj,'t',time.time()-t0)
d.close()
