#!/bin/bash
# thorough_all.sh [ids...]: run the thorough tier of every check (or the listed ones) in turn; log under .build/thorough/
cd /verif; mkdir -p .build/thorough
ids=${@:-C01 C02 C03 C04 C05 C06 C07 C08 C09 C10 C11 C12 C13 C14 C15 C16 C17 C18 C19 C20}
for c in $ids; do
  cp evidence/$c.json .build/thorough/$c.quick.json 2>/dev/null
  ./vcheck $c --tier thorough > .build/thorough/$c.log 2>&1; rc=$?
  cp evidence/$c.json .build/thorough/$c.thorough.json 2>/dev/null
  cp .build/thorough/$c.quick.json evidence/$c.json 2>/dev/null
  echo "THOROUGH $c rc=$rc $(tail -1 .build/thorough/$c.log | cut -c1-260)"
done
