"""Client side of zwdrv: batches of commands, crash attribution, restart."""
import os, subprocess, glob, time, select, signal

VERIF = os.path.dirname(os.path.dirname(os.path.abspath(__file__)))
LOGDIR = os.path.join(VERIF, ".build", "sanlogs")


def hx(b):
    if isinstance(b, str):
        b = b.encode("utf-8", "surrogateescape")
    return "x" + b.hex()


def unhx(s):
    assert s[:1] == "x", s
    return bytes.fromhex(s[1:])


class Crash(Exception):
    def __init__(self, cmd, kind, log, partial):
        self.cmd, self.kind, self.log, self.partial = cmd, kind, log, partial
        Exception.__init__(self, "%s on %r" % (kind, cmd))


class Resp:
    """Parsed response to one command."""
    __slots__ = ("lines", "stderr", "mem", "crash")

    def __init__(self, lines, stderr=b"", mem=None, crash=None):
        self.lines, self.stderr, self.mem, self.crash = lines, stderr, mem, crash

    def results(self):
        return [l[2:] for l in self.lines if l.startswith("r ")]

    def first(self, tag):
        for l in self.lines:
            if l.startswith(tag + " ") or l == tag:
                return l[len(tag) + 1:]
        return None

    def has(self, tag):
        return self.first(tag) is not None

    def contract(self):
        return [l for l in self.lines if l.startswith("CONTRACT")]

    def soft_errors(self):
        return [l for l in self.stderr.decode("latin-1").splitlines() if l.strip()]


class Drv:
    def __init__(self, binary, voc="core", track_alloc=False, timeout=30.0, env=None, detect_leaks=False, cmd_timeout=10):
        self.binary, self.voc, self.track, self.timeout = binary, voc, track_alloc, timeout
        self.extra_env = dict(env or {})
        self.extra_env.setdefault("ZWDRV_CMD_TIMEOUT", str(cmd_timeout))
        self.detect_leaks = detect_leaks
        self.p = None
        self.restarts = 0
        self.setup_cmds = []   # replayed after every restart (open handles, voc, ...)
        os.makedirs(LOGDIR, exist_ok=True)
        self.start()

    def start(self):
        env = dict(os.environ)
        self.logbase = os.path.join(LOGDIR, "san.%d.%d" % (os.getpid(), self.restarts))
        env["ASAN_OPTIONS"] = "log_path=%s:detect_leaks=%d:abort_on_error=1:allocator_may_return_null=1:detect_stack_use_after_return=0:hard_rss_limit_mb=3000" % (
            self.logbase, 1 if self.detect_leaks else 0)
        env["UBSAN_OPTIONS"] = "log_path=%s:print_stacktrace=1:halt_on_error=1" % self.logbase
        env["LSAN_OPTIONS"] = "log_path=%s" % self.logbase
        env["ZWDRV_ERRFILE"] = self.logbase + ".stderr"
        if self.track:
            env["ZWDRV_TRACK_ALLOC"] = "1"
        env.update(self.extra_env)
        self.p = subprocess.Popen([self.binary, self.voc], stdin=subprocess.PIPE, stdout=subprocess.PIPE,
                                  stderr=subprocess.DEVNULL, env=env, bufsize=0)
        self.buf = b""
        self.inflight, self.nwritten, self.bytes_out = [], 0, 0
        self.restarts += 1
        if self.setup_cmds:
            cmds = list(self.setup_cmds)
            for r in self._batch(cmds, restart_on_crash=False):
                if r.crash:
                    raise RuntimeError("setup command crashed: %r" % (r.crash,))

    def close(self):
        if self.p is not None:
            try:
                self.p.stdin.write(b"quit\n")
                self.p.stdin.close()
                self.p.wait(timeout=30)
            except Exception:
                self.p.kill()
            self.p = None
        for f in glob.glob(self.logbase + "*"):
            try:
                os.unlink(f)
            except OSError:
                pass

    def setup(self, cmd):
        self.setup_cmds.append(cmd)
        r = self.batch([cmd])[0]
        return r

    def _readline(self, deadline):
        while b"\n" not in self.buf:
            tmo = deadline - time.time()
            if tmo <= 0:
                return None
            r, _, _ = select.select([self.p.stdout], [], [], tmo)
            if not r:
                return None
            chunk = os.read(self.p.stdout.fileno(), 1 << 16)
            if not chunk:
                return b""
            self.buf += chunk
        i = self.buf.index(b"\n")
        line, self.buf = self.buf[:i], self.buf[i + 1:]
        return line + b"\n"

    def _collect_log(self):
        log = ""
        for f in sorted(glob.glob(self.logbase + "*")):
            try:
                log += open(f, errors="replace").read()
                os.unlink(f)
            except OSError:
                pass
        return log

    # ---- pipelined interface: send() queues commands, recv(n) returns n responses in order
    def send(self, cmds):
        """Queue commands.  At most ~48 KB may be in flight (pipe capacity), or the call drains first."""
        for c in cmds:
            self.inflight.append(c)
        self._pump()

    def _pump(self):
        # write as many not-yet-written commands as fit into the in-flight byte budget
        while self.nwritten < len(self.inflight):
            c = self.inflight[self.nwritten]
            if self.bytes_out and self.bytes_out + len(c) + 1 > 48000:
                return
            try:
                self.p.stdin.write((c + "\n").encode("latin-1"))
            except (BrokenPipeError, OSError):
                pass
            self.bytes_out += len(c) + 1
            self.nwritten += 1

    def recv(self, n, restart_on_crash=True):
        out = []
        while len(out) < n:
            if not self.inflight:
                raise RuntimeError("recv without matching send")
            self._pump()
            cur, stderr, mem = [], b"", None
            crashed, kind = False, None
            while True:
                line = self._readline(time.time() + self.timeout)
                if line is None:
                    crashed, kind = True, "timeout"
                    break
                if line == b"":
                    crashed, kind = True, "crash"
                    break
                s = line[:-1].decode("latin-1")
                if s == ".":
                    break
                elif s.startswith("s "):
                    stderr += unhx(s[2:])
                elif s.startswith("m "):
                    mem = int(s[2:])
                else:
                    cur.append(s)
            c = self.inflight.pop(0)
            self.nwritten -= 1
            self.bytes_out -= len(c) + 1
            if not crashed:
                out.append(Resp(cur, stderr, mem))
                continue
            try:
                self.p.kill()
                self.p.wait()
            except Exception:
                pass
            rc = self.p.returncode
            log = self._collect_log()
            if kind == "crash":
                kind = "crash rc=%s" % rc
            out.append(Resp(cur, stderr, None, crash=(kind, log)))
            if not restart_on_crash:
                raise RuntimeError("driver died: %s\n%s" % (kind, log))
            pending = self.inflight
            self.inflight = []
            self.start()            # replays setup commands
            self.inflight = pending
            self.nwritten = 0
            self.bytes_out = 0
        return out

    def _batch(self, cmds, restart_on_crash=True):
        out = []
        for c in cmds:
            self.send([c])
            while self.nwritten < len(self.inflight):
                out.extend(self.recv(1, restart_on_crash))
        out.extend(self.recv(len(self.inflight), restart_on_crash))
        return out

    def batch(self, cmds):
        if not cmds:
            return []
        return self._batch(list(cmds))

    def cmd(self, c):
        return self.batch([c])[0]

    # convenience
    def run(self, q, p=None, i=None, nosimp=False, lim=None):
        return self.cmd(run_cmd(q, p, i, nosimp, lim))


def run_cmd(q, p=None, i=None, nosimp=False, lim=None):
    c = "run q=" + hx(q)
    if p is not None:
        c += " p=" + hx(p)
    if i is not None:
        c += " i=" + i
    if nosimp:
        c += " nosimp"
    c += " lim=%d" % (200 if lim is None else lim)
    return c
