#!/usr/bin/env python3
"""Self-test of elfgen.py / dwread.py.   python3 /verif/lib/test_elfgen.py [-v] [--no-drv] [--keep]

1. round trip: model -> elfgen -> file -> dwread -> compare with the model (every offset and value)
2. real consumer: the same files through zwdrv (libzwerg + libdw): DIE offsets, attributes, abbreviations,
   symbols, decl_file, location lists, and no diagnostics on stderr
3. binutils readelf prints no warning for the generated files (when installed)
4. dwread on gcc output (-gdwarf-2..5, linked -shared -nostdlib) against readelf's DIE offsets / tags / symbols
Scratch files live in /tmp/elfgen-scratch/selftest-<pid> and are removed at the end (unless --keep).
"""
import os
import re
import shutil
import subprocess
import sys

HERE = os.path.dirname(os.path.abspath(__file__))
sys.path.insert(0, HERE)
import elfgen as g        # noqa: E402
import dwread             # noqa: E402

A, D, DW, F = g.Attr, g.Die, g.DW, g.DW_FORM
VERBOSE = '-v' in sys.argv
SCRATCH = '/tmp/elfgen-scratch/selftest-%d' % os.getpid()
FAILS, NCHECK = [], [0]
U64 = (1 << 64) - 1


def check(cond, msg):
    NCHECK[0] += 1
    if not cond:
        FAILS.append(msg)
        print('FAIL:', msg if VERBOSE or len(msg) < 700 else msg[:700] + ' ...')
    return cond


def eq(a, b, msg):
    return check(a == b, '%s: %r != %r' % (msg, a, b))


def note(*a):
    if VERBOSE:
        print(*a)


# --------------------------------------------------------------------------
# models
# --------------------------------------------------------------------------

def root(name=b'a.c', attrs=(), children=(), tag='DW_TAG_compile_unit', low_pc=True):
    at = [A('DW_AT_name', 'DW_FORM_string', name), A('DW_AT_comp_dir', 'DW_FORM_string', b'/src'),
          A('DW_AT_language', 'DW_FORM_data1', DW['DW_LANG_C99'])]
    if low_pc:
        at.append(A('DW_AT_low_pc', 'DW_FORM_addr', 0))
    return D(tag, at + list(attrs), children)


def var(name, attrs=(), children=(), flag=None, tag='DW_TAG_variable', form='DW_FORM_string'):
    return D(tag, [A('DW_AT_name', form, name)] + list(attrs), children, flag)


def m_basic(version, osz):
    base = var(b'int', [A('DW_AT_byte_size', 'DW_FORM_data1', 4), A('DW_AT_encoding', 'DW_FORM_data1', 5)],
               tag='DW_TAG_base_type')
    leaf = var(b'leaf', flag=True, form='DW_FORM_strp')
    inner = var(b'inner', [A('DW_AT_type', 'DW_FORM_ref4', base)], [leaf, var(b'leaf', form='DW_FORM_strp')],
                tag='DW_TAG_lexical_block')
    sub = var(b'f', [A('DW_AT_external', 'DW_FORM_flag', 1)], [inner, var(b'p', tag='DW_TAG_formal_parameter')],
              tag='DW_TAG_subprogram')
    sub.attrs.append(A('DW_AT_sibling', 'DW_FORM_ref4', g.End(sub)))
    last = var(b'last', [A('DW_AT_type', 'DW_FORM_ref_udata', base)], flag=True)
    r = root(children=[base, sub, var(b'g', [A('DW_AT_type', 'DW_FORM_ref2', base)]), last])
    return g.ElfFile([g.Unit(r, version, osz)])


def form_attrs(version, osz, indirect, target, far):
    """One attribute of every form valid for VERSION (names from DW_AT_lo_user up; order significant)."""
    vals = [('addr', 0x1234), ('block2', b'\x01\x02'), ('block4', b''), ('data2', 0xfffe), ('data4', -2),
            ('data8', 1 << 63), ('string', b'str'), ('string', b''), ('block', b'\x96' * 130), ('block1', [('DW_OP_lit1',)]),
            ('data1', 0xff), ('flag', 1), ('flag', 0), ('sdata', -129), ('sdata', 1 << 62), ('strp', b'pooled'),
            ('strp', b''), ('udata', (1 << 64) - 1), ('udata', 0), ('ref_addr', far), ('ref1', target),
            ('ref2', target), ('ref4', target), ('ref8', target), ('ref_udata', target)]
    if version >= 4:
        vals += [('sec_offset', 0), ('exprloc', [('DW_OP_addr', 0x10), ('DW_OP_deref',)]), ('exprloc', b''),
                 ('flag_present', None), ('ref_sig8', 0x1122334455667788)]
    if version >= 5:
        vals += [('data16', bytes(range(16))), ('line_strp', b'line pooled'), ('implicit_const', -5),
                 ('implicit_const', 1 << 40)]
    out = []
    for i, (f, v) in enumerate(vals):
        ind = indirect and f != 'implicit_const'
        out.append(A(DW['DW_AT_lo_user'] + i, 'DW_FORM_' + f, v, indirect=ind))
    return out


def m_forms(version, osz, indirect, asz=8):
    other = root(b'other.c', children=[var(b'far')])
    r = root()
    holder = D('DW_TAG_variable', form_attrs(version, osz, indirect, r, other.children[0]))
    r.children = [holder, var(b'after')]
    return g.ElfFile([g.Unit(r, version, osz, asz), g.Unit(other, version, osz, asz)])


def m_xforms(osz, asz=8, raw_lists=False):
    """DWARF 5 index forms.  elfgen writes the raw indices only; the index sections are made by hand from a
    first layout (extra sections do not move anything in the generated ones)."""
    strs = [b'zero', b'one', b'two', b'three', b'four']
    addrs = [0x1000 + 16 * i for i in range(6)]
    hold = D('DW_TAG_variable', [A('DW_AT_name', 'DW_FORM_strx', 0), A('DW_AT_linkage_name', 'DW_FORM_strx1', 1),
                                 A(DW['DW_AT_lo_user'], 'DW_FORM_strx2', 2), A(DW['DW_AT_lo_user'] + 1, 'DW_FORM_strx3', 3),
                                 A(DW['DW_AT_lo_user'] + 2, 'DW_FORM_strx4', 4, indirect=True), A('DW_AT_low_pc', 'DW_FORM_addrx', 5),
                                 A(DW['DW_AT_lo_user'] + 3, 'DW_FORM_addrx1', 1), A(DW['DW_AT_lo_user'] + 4, 'DW_FORM_addrx2', 2),
                                 A(DW['DW_AT_lo_user'] + 5, 'DW_FORM_addrx3', 3), A(DW['DW_AT_lo_user'] + 6, 'DW_FORM_addrx4', 4),
                                 A(DW['DW_AT_lo_user'] + 7, 'DW_FORM_ref_sup4', 8), A(DW['DW_AT_lo_user'] + 8, 'DW_FORM_ref_sup8', 9),
                                 A(DW['DW_AT_lo_user'] + 9, 'DW_FORM_strp_sup', 10)])
    if raw_lists:        # no offset tables are generated for these: raw indices only, readelf would complain
        hold.attrs += [A(DW['DW_AT_lo_user'] + 10, 'DW_FORM_loclistx', 0), A(DW['DW_AT_lo_user'] + 11, 'DW_FORM_rnglistx', 200)]
    hdr = 8 if osz == 4 else 16
    r = root(attrs=[A('DW_AT_str_offsets_base', 'DW_FORM_sec_offset', hdr), A('DW_AT_addr_base', 'DW_FORM_sec_offset', hdr)]
             + [A(DW['DW_AT_hi_user'] - i, 'DW_FORM_strp', s) for i, s in enumerate(strs)], children=[hold])
    m = g.ElfFile([g.Unit(r, 5, osz, asz)])
    pool = m.layout()['.debug_str']
    offs = b''.join(g.uint(pool.index(s + b'\0'), osz) for s in strs)
    ln = lambda n: g.uint(n, 4) if osz == 4 else b'\xff' * 4 + g.uint(n, 8)
    m.sections = [g.Section('.debug_str_offsets', ln(4 + len(offs)) + g.uint(5, 2) + g.uint(0, 2) + offs),
                  g.Section('.debug_addr', ln(4 + asz * len(addrs)) + g.uint(5, 2) + bytes([asz, 0]) + b''.join(g.uint(a, asz) for a in addrs))]
    m.xforms_truth = (strs, addrs)
    return m


def m_multi(versions, oszs):
    """compile units + partial units, imports, cross-unit ref_addr both directions, shared abbrev tables."""
    shared = g.AbbrevTable()
    pu_t = var(b'T', tag='DW_TAG_typedef')
    pu = root(b'<partial>', children=[pu_t], tag='DW_TAG_partial_unit', low_pc=False)
    pu2 = root(b'<partial2>', children=[var(b'U', tag='DW_TAG_typedef'),
                                        D('DW_TAG_imported_unit', [A('DW_AT_import', 'DW_FORM_ref_addr', pu)])],
               tag='DW_TAG_partial_unit', low_pc=False)
    v1 = var(b'v1', [A('DW_AT_type', 'DW_FORM_ref_addr', pu_t)])
    cu1 = root(b'one.c', children=[D('DW_TAG_imported_unit', [A('DW_AT_import', 'DW_FORM_ref_addr', pu2)]), v1,
                                   var(b'ns', children=[D('DW_TAG_imported_unit',
                                                          [A('DW_AT_import', 'DW_FORM_ref_addr', pu)])],
                                       tag='DW_TAG_namespace')])
    cu2 = root(b'two.c', children=[var(b'v2', [A('DW_AT_abstract_origin', 'DW_FORM_ref_addr', v1)]),
                                   D('DW_TAG_imported_unit', [A('DW_AT_import', 'DW_FORM_ref_addr', pu)]),
                                   D('DW_TAG_imported_unit', [A('DW_AT_import', 'DW_FORM_ref_addr', pu)])])
    empty = root(b'empty.c')
    roots = [cu1, pu, cu2, pu2, empty]
    units = []
    for i, r in enumerate(roots):
        units.append(g.Unit(r, versions[i % len(versions)], oszs[i % len(oszs)],
                            abbrev_table=shared if i in (0, 2, 3) and len(set(versions)) == 1 else None))
    return g.ElfFile(units)


def m_deep(n, version=4):
    d = var(b'bottom', flag=True)
    for i in range(n):
        d = D('DW_TAG_lexical_block', [A('DW_AT_decl_line', 'DW_FORM_udata', i)], [d, var(b'x%d' % i)])
    return g.ElfFile([g.Unit(root(children=[d]), version)])


def m_wide(n, version=5):
    """many siblings: abbreviation codes and DIE offsets past the 1-byte ULEB range, ref_udata growth"""
    kids = [D(DW['DW_TAG_variable'], [A(DW['DW_AT_lo_user'] + i, 'DW_FORM_data1', i & 255)]) for i in range(n)]
    for i, k in enumerate(kids):
        k.attrs.append(A('DW_AT_type', 'DW_FORM_ref_udata', kids[(i * 7 + 3) % n]))
        k.attrs.append(A('DW_AT_sibling', 'DW_FORM_ref_udata', g.End(k)))
    kids[0].attrs.append(A('DW_AT_location', 'DW_FORM_exprloc', [('DW_OP_convert', kids[-1]), ('DW_OP_call4', kids[-2]),
                                                                  ('DW_OP_const_type', kids[n // 2], b'\x01\x02')]))
    return g.ElfFile([g.Unit(root(children=kids), version)])


def loc_entries(version, asz):
    big = (1 << (8 * asz)) - 2
    ents = [('pair', 0x10, 0x20, [('DW_OP_reg3',)]), ('pair', 0x20, 0x28, [('DW_OP_breg7', -16), ('DW_OP_deref',)]),
            ('base', 0x4000), ('pair', 1, 2, []), ('pair', 8, big - 0x4000, [('DW_OP_lit0',), ('DW_OP_stack_value',)])]
    if version >= 5:
        ents += [('start_end', 0x100, 0x180, [('DW_OP_fbreg', 8)]), ('start_length', 0x200, 0x44, [('DW_OP_regx', 300)]),
                 ('default', [('DW_OP_lit5',), ('DW_OP_stack_value',)])]
    return ents


def m_lists(version, osz, asz):
    ptr = 'DW_FORM_sec_offset' if version >= 4 else ('DW_FORM_data4' if osz == 4 else 'DW_FORM_data8')
    l1 = g.LocList(loc_entries(version, asz))
    l2 = g.LocList([('pair', 4, 6, b'\x50')])
    l3 = g.LocList([])
    r1 = g.RangeList([('pair', 0x10, 0x20), ('base', 0x1000), ('pair', 0, 8)]
                     + ([('start_end', 0x5000, 0x5010), ('start_length', 0x6000, 0x20)] if version >= 5 else []))
    r2 = g.RangeList([('pair', 1, 2)])
    vs = [var(b'a', [A('DW_AT_location', ptr, l1)]), var(b'b', [A('DW_AT_location', ptr, l2)]),
          var(b'c', [A('DW_AT_location', ptr, l1)]), var(b'e', [A('DW_AT_location', ptr, l3)]),
          var(b'x', [A('DW_AT_location', 'DW_FORM_exprloc' if version >= 4 else 'DW_FORM_block1', [('DW_OP_addr', 0x99)])]),
          var(b'blk', [A('DW_AT_ranges', ptr, r1)], tag='DW_TAG_lexical_block'),
          var(b'blk2', [A('DW_AT_ranges', ptr, r2)], tag='DW_TAG_lexical_block')]
    # a second unit with its own lists (its own .debug_loclists header in v5) and a non-zero base address
    l4 = g.LocList([('pair', 0, 4, [('DW_OP_reg1',)]), ('pair', 4, 9, [('DW_OP_reg2',)])])
    r3 = g.RangeList([('pair', 0, 4)])
    cu2 = root(b'b.c', low_pc=False, attrs=[A('DW_AT_low_pc', 'DW_FORM_addr', 0x700000)],
               children=[var(b'd', [A('DW_AT_location', ptr, l4)]), var(b'blk3', [A('DW_AT_ranges', ptr, r3)],
                                                                          tag='DW_TAG_lexical_block')])
    return g.ElfFile([g.Unit(root(children=vs), version, osz, asz), g.Unit(cu2, version, osz, asz)])


def m_line(version, osz, str_form=None, asz=8):
    if version >= 5:
        lt = g.LineTable([b'/src', b'/usr/include', b'sub'], [(b'a.c', 0), (b'a.c', 0), (b'stdio.h', 1), (b'/abs/x.h', 0),
                                                               (b'rel.h', 2)], str_form=str_form)
        idx = [0, 1, 2, 3, 4]
    else:
        lt = g.LineTable([b'/usr/include', b'sub'], [(b'a.c', 0), (b'stdio.h', 1), (b'/abs/x.h', 0), (b'rel.h', 2)])
        idx = [0, 1, 2, 3, 4]
    ptr = 'DW_FORM_sec_offset' if version >= 4 else ('DW_FORM_data4' if osz == 4 else 'DW_FORM_data8')
    kids = [var(b'v%d' % i, [A('DW_AT_decl_file', ['DW_FORM_data1', 'DW_FORM_data2', 'DW_FORM_data4', 'DW_FORM_data8'][i % 4], i),
                             A('DW_AT_decl_line', 'DW_FORM_data1', 10 + i)]) for i in idx]
    kids.append(var(b'u', [A('DW_AT_decl_file', 'DW_FORM_udata', 2)]))
    kids.append(var(b'c', [A('DW_AT_call_file', 'DW_FORM_data1', 1)], tag='DW_TAG_inlined_subroutine'))
    r = root(attrs=[A('DW_AT_stmt_list', ptr, lt)], children=kids)
    # second unit with a second table
    lt2 = g.LineTable([b'/q'] if version < 5 else [b'/src', b'/q'], [(b'b.c', 0), (b'q.h', 1)], str_form=str_form)
    r2 = root(b'b.c', attrs=[A('DW_AT_stmt_list', ptr, lt2)],
              children=[var(b'w', [A('DW_AT_decl_file', 'DW_FORM_data2', 1 if version >= 5 else 2)])])
    return g.ElfFile([g.Unit(r, version, osz, asz), g.Unit(r2, version, osz, asz)])


def m_syms(e_machine, e_type, with_units=True):
    text = g.Section('.text', b'\x90' * 64, 'SHT_PROGBITS', g.ELF['SHF_ALLOC'] | g.ELF['SHF_EXECINSTR'],
                     addr=0 if e_type == 1 else 0x401000, addralign=16)
    bss = g.Section('.bss', b'', 'SHT_NOBITS', g.ELF['SHF_ALLOC'] | g.ELF['SHF_WRITE'],
                    addr=0 if e_type == 1 else 0x402000, addralign=8, size=32)
    syms = []
    for t in range(16):
        for b in range(16):
            for v in range(4):
                syms.append(g.Sym(b'sym_%d_%d_%d' % (t, b, v), 0x10 + t, b, t, b, v, text if (t + b) % 2 else 0xfff1))
    syms += [g.Sym(b'', 0, 0, 3, 0, 0, text), g.Sym(b'undef', 0, 0, 0, 1, 0, 0), g.Sym(b'common', 8, 8, 1, 1, 0, 0xfff2),
             g.Sym(b'zero', 0x20, 0, 2, 1, 0, text), g.Sym(b'L' * 300, 0x21, 1, 1, 0, 0, bss),
             g.Sym(b'sym_1_1_1', 5, 5, 1, 1, 1, 0xfff1), g.Sym(b'other', 1, 2, 1, 2, 0x63, 0xfff1),
             g.Sym(b'huge', (1 << 64) - 1, (1 << 64) - 1, 1, 1, 0, 0xfff1)]
    units = [g.Unit(root(children=[var(b'v')]), 4)] if with_units else []
    return g.ElfFile(units, syms, e_machine=e_machine, e_type=e_type, sections=[text, bss])


def all_ops(version, asz, osz, tgt, uninit=False):
    """every opcode dwarf.h knows with boundary operands: [(ops for one expression)]"""
    exprs = []
    for opc, spec in sorted(g.OP_OPERANDS.items()):
        name = g.dw_name('DW_OP', opc)
        if name in ('DW_OP_lo_user', 'DW_OP_hi_user') or (name == 'DW_OP_GNU_uninit' and not uninit):
            continue        # libdw 0.188 rejects DW_OP_GNU_uninit ("invalid DWARF"); see quirks()
        variants = [[]]
        for k in spec:
            if k[0] in 'us' and k[1:].isdigit():
                n = 8 * int(k[1:])
                vs = [0, (1 << n) - 1] if k[0] == 'u' else [-(1 << (n - 1)), (1 << (n - 1)) - 1, -1]
            elif k == 'U':
                vs = [0, 127, 128, (1 << 64) - 1]
            elif k == 'S':
                vs = [0, -1, 63, 64, -64, -65, -(1 << 63), (1 << 63) - 1]
            elif k == 'addr':
                vs = [0, (1 << (8 * asz)) - 1]
            elif k == 'blk':
                vs = [b'', b'\x01\x02\x03', bytes(200)]
            elif k == 'cblk':
                vs = [b'\x2a', b'\x01\x02\x03\x04\x05\x06\x07\x08']
            elif k == 'expr':
                vs = [[('DW_OP_reg5',)], [('DW_OP_breg1', -300), ('DW_OP_deref',)], b'']
            else:
                vs = [tgt]
            variants = [v + [x] for v in variants for x in vs] if len(vs) * len(variants) <= 12 else \
                [variants[i % len(variants)] + [vs[i % len(vs)]] for i in range(max(len(vs), len(variants)))]
        for v in variants:
            exprs.append([(opc,) + tuple(v)])
    return exprs


def m_ops(version, osz, asz):
    tgt = var(b'int', [A('DW_AT_byte_size', 'DW_FORM_data1', 4), A('DW_AT_encoding', 'DW_FORM_data1', 5)],
              tag='DW_TAG_base_type')
    form = 'DW_FORM_exprloc' if version >= 4 else 'DW_FORM_block'
    exprs = all_ops(version, asz, osz, tgt)
    kids = [tgt] + [var(b'e%d' % i, [A('DW_AT_location', form, e)]) for i, e in enumerate(exprs)]
    everything = [op for e in exprs for op in e]
    kids.append(var(b'all', [A('DW_AT_location', 'DW_FORM_block4' if version < 4 else form, everything)]))
    ptr = 'DW_FORM_sec_offset' if version >= 4 else ('DW_FORM_data4' if osz == 4 else 'DW_FORM_data8')
    kids.append(var(b'inlist', [A('DW_AT_location', ptr, g.LocList([('pair', 1, 2, everything[:40]),
                                                                      ('pair', 2, 3, everything[40:90])]))]))
    kids.append(var(b'tail'))
    return g.ElfFile([g.Unit(root(children=kids), version, osz, asz)])


def m_noshare():
    t = g.AbbrevTable(share=False, first_code=100, step=3)
    kids = [var(b'a'), var(b'b', [A('DW_AT_decl_file', 'DW_FORM_data1', 1)]), var(b'c', children=[var(b'd'), var(b'e')])]
    u1 = g.Unit(g.cu_root(version=4, line_table=g.LineTable([], [b'only.c']), children=kids), 4, abbrev_table=t)
    u2 = g.Unit(root(b'b.c', children=[var(b'a'), var(b'b')]), 4, abbrev_table=t)
    return g.ElfFile([u1, u2])


def m_unit_types():
    ty = var(b'S', tag='DW_TAG_structure_type')
    tu = g.Unit(D('DW_TAG_type_unit', [A('DW_AT_language', 'DW_FORM_data1', 1)], [ty]), 5, type_signature=0xa1b2c3d4e5f60718,
                type_die=ty)
    sk = g.Unit(D('DW_TAG_skeleton_unit', [A('DW_AT_dwo_name', 'DW_FORM_string', b'x.dwo'),
                                           A('DW_AT_comp_dir', 'DW_FORM_string', b'/nonexistent')]), 5, 8,
                dwo_id=0x0102030405060708)
    cu = g.Unit(root(children=[var(b'v', [A('DW_AT_signature', 'DW_FORM_ref_sig8', 0xa1b2c3d4e5f60718)])]), 5)
    return g.ElfFile([cu, tu, sk])


def m_single_root(version, osz):
    return g.ElfFile([g.Unit(D('DW_TAG_compile_unit'), version, osz), g.Unit(D('DW_TAG_compile_unit', [], [], True), version, osz),
                      g.Unit(D('DW_TAG_partial_unit', [A('DW_AT_name', 'DW_FORM_string', b'p')]), version, osz)])


def models():
    out = []
    for v in (2, 3, 4, 5):
        for osz in (4, 8):
            out.append(('basic-v%d-o%d' % (v, osz), m_basic(v, osz)))
            for ind in (False, True):
                out.append(('forms-v%d-o%d-%s' % (v, osz, 'ind' if ind else 'dir'), m_forms(v, osz, ind)))
            out.append(('lists-v%d-o%d-a8' % (v, osz), m_lists(v, osz, 8)))
            out.append(('line-v%d-o%d' % (v, osz), m_line(v, osz)))
            out.append(('single-v%d-o%d' % (v, osz), m_single_root(v, osz)))
            out.append(('multi-v%d-o%d' % (v, osz), m_multi([v], [osz])))
        out.append(('forms-v%d-a4' % v, m_forms(v, 4, False, 4)))
        out.append(('lists-v%d-o4-a4' % v, m_lists(v, 4, 4)))
        out.append(('ops-v%d-o4-a8' % v, m_ops(v, 4, 8)))
    out.append(('xforms-o4', m_xforms(4)))
    out.append(('xforms-o8-a4', m_xforms(8, 4)))
    out.append(('xraw-lists', m_xforms(4, 8, True)))
    out.append(('ops-v5-o8-a4', m_ops(5, 8, 4)))
    out.append(('ops-v3-o8-a8', m_ops(3, 8, 8)))
    out.append(('ops-v2-o4-a4', m_ops(2, 4, 4)))
    out.append(('line-v5-line_strp', m_line(5, 4, 'DW_FORM_line_strp')))
    out.append(('line-v5-o8-line_strp', m_line(5, 8, 'DW_FORM_line_strp')))
    out.append(('line-v5-strp', m_line(5, 4, 'DW_FORM_strp')))
    out.append(('multi-mixed', m_multi([2, 5, 3, 4], [4, 8, 4])))
    out.append(('multi-mixed2', m_multi([5, 4], [8, 4])))
    out.append(('deep-300', m_deep(300)))
    out.append(('wide-700', m_wide(700)))
    out.append(('wide-20000-v3', m_wide(20000, 3)))
    out.append(('noshare', m_noshare()))
    out.append(('unit-types', m_unit_types()))
    for em in ('EM_X86_64', 'EM_ARM', 'EM_MIPS', 'EM_PPC64', 'EM_386', 'EM_NONE', 0x1234):
        for et in (1, 2, 3):
            if em not in ('EM_X86_64', 'EM_ARM') and et != 1:
                continue
            out.append(('syms-%s-t%d' % (em, et), m_syms(em, et)))
    out.append(('syms-only', m_syms('EM_X86_64', 1, with_units=False)))
    out.append(('nullsym-only', g.ElfFile([g.Unit(root(), 4)], [], with_symtab=True)))
    return out


# --------------------------------------------------------------------------
# 1. round trip through dwread
# --------------------------------------------------------------------------

def root_base(u):
    a = u.root.attr('DW_AT_low_pc')
    return a.value if a is not None and a.form == F['DW_FORM_addr'] else 0


def expr_bytes(x, u):
    return x if isinstance(x, (bytes, bytearray)) else g.encode_ops(x, u.address_size, u.offset_size, u.version, u)[0]


def roundtrip(name, m, path):
    r = dwread.ElfReader(path)
    eq(r.e_type, m.e_type, name + ' e_type')
    eq(r.e_machine, m.e_machine, name + ' e_machine')
    for sec, data in m.section_data.items():
        eq(r.section_data(sec), data if r.section(sec).type != 8 else b'', '%s section %s' % (name, sec))
        eq(r.section(sec).index, m.section_index[sec], '%s section index %s' % (name, sec))
    if not eq(len(r.units), len(m.units), name + ' unit count'):
        return
    for mu, ru in zip(m.units, r.units):
        w = '%s unit@%x' % (name, mu.offset)
        eq((ru.offset, ru.version, ru.offset_size, ru.address_size, ru.abbrev_offset, ru.next_offset, ru.header_size),
           (mu.offset, mu.version, mu.offset_size, mu.address_size, mu.abbrev_offset, mu.next_offset, mu.header_size), w)
        eq(mu.abbrev_offset, mu.abbrev_table.offset, w + ' abbrev offset')
        if mu.version >= 5:
            eq(ru.unit_type, mu.effective_unit_type(), w + ' unit type')
            if ru.unit_type == DW['DW_UT_type']:
                eq((ru.type_signature, ru.type_offset + ru.offset), (mu.type_signature, mu.type_die.offset), w + ' type unit')
            if ru.unit_type == DW['DW_UT_skeleton']:
                eq(ru.dwo_id, mu.dwo_id, w + ' dwo id')
        mdies = list(mu.root.walk())
        eq(mdies, mu.dies, w + ' unit.dies')
        if not eq([d.offset for d in ru.dies], [d.offset for d in mdies], w + ' DIE offsets'):
            continue
        for md, rd in zip(mdies, ru.dies):
            wd = '%s die@%x' % (name, md.offset)
            eq((rd.tag, rd.has_children, rd.abbrev_code, rd.end_offset), (md.tag, md.has_children, md.abbrev_code, md.end_offset), wd)
            eq(rd.parent.offset if rd.parent else None, md.parent.offset if md.parent else None, wd + ' parent')
            eq([c.offset for c in rd.children], [c.offset for c in md.children], wd + ' children')
            check(md.unit is mu, wd + ' unit link')
            eq((rd.abbrev.offset, rd.abbrev.specs), (md.abbrev.offset, md.abbrev.specs), wd + ' abbrev')
            if not eq(len(rd.attrs), len(md.attrs), wd + ' attr count'):
                continue
            for ma, ra in zip(md.attrs, rd.attrs):
                wa = '%s %r' % (wd, ma)
                eq((ra.name, ra.form, ra.indirect, ra.offset), (ma.name, ma.form, ma.indirect, ma.offset), wa)
                eq(ra.value, ma.resolved, wa + ' value')
                if isinstance(ma.value, list):             # an expression given as ops
                    eq(r.decode_expr(ra.value, ru), g.resolve_ops(ma.value, mu.address_size, mu.offset_size, mu.version, mu),
                       wa + ' ops')
                if isinstance(ma.value, g.RangeList):
                    rl = r.rangelist(ra.value, ru)
                    eq(rl.entries, [tuple(e) for e in ma.value.entries], wa + ' range entries')
                    eq(rl.ranges, [x[:2] for x in ma.value.ranges(root_base(mu))], wa + ' ranges')
                    eq(rl.end - rl.offset, ma.value.size, wa + ' range list size')
                elif isinstance(ma.value, g.LocList):
                    ll = r.loclist(ra.value, ru)
                    lu = ma.value.unit
                    eq(ll.entries, [tuple(expr_bytes(x, lu) if i == len(e) - 1 and e[0] != 'base' else x
                                          for i, x in enumerate(e)) for e in ma.value.entries], wa + ' loc entries')
                    eq(ll.ranges, [(lo, hi, expr_bytes(x, lu)) for lo, hi, x in ma.value.ranges(root_base(mu))], wa + ' loc ranges')
                    eq(ll.expr_offsets, ma.value.expr_offsets, wa + ' expr offsets')
                    eq(ll.end - ll.offset, ma.value.size, wa + ' loc list size')
                elif isinstance(ma.value, g.LineTable):
                    lt = r.line_table(ra.value)
                    eq((lt.version, lt.dirs, lt.files, lt.offset_size), (ma.value.version, ma.value.dirs, ma.value.files, mu.offset_size),
                       wa + ' line table')
                    eq(lt.next_offset - lt.offset, ma.value.size, wa + ' line table size')
                    for i in range(len(lt.files) + 2):
                        eq(r.file_path(lt, i, b'/src'), ma.value.path(i, b'/src'), wa + ' path %d' % i)
    if hasattr(m, 'xforms_truth'):
        strs, addrs = m.xforms_truth
        ru = r.units[0]
        for a in ru.dies[1].attrs:
            fn = g.dw_name('DW_FORM', a.form)
            if fn.startswith('DW_FORM_strx'):
                eq(r.resolve_indexed(a, ru), strs[a.value], name + ' ' + fn)
            elif fn.startswith('DW_FORM_addrx'):
                eq(r.resolve_indexed(a, ru), addrs[a.value], name + ' ' + fn)
    # abbreviation tables
    pos = 0
    for t in m.abbrev_tables:
        eq(t.offset, pos, name + ' abbrev table offset')
        ra = r.abbrev_table(t.offset)
        eq([(a.code, a.tag, a.children, a.specs, a.offset, a.attr_offsets) for a in ra],
           [(a.code, a.tag, a.children, a.specs, a.offset, a.attr_offsets) for a in t.abbrevs], name + ' abbrev table @%x' % pos)
        eq(r.abbrev_table_end(t.offset), t.offset + t.size, name + ' abbrev table end')
        pos += t.size
    if m.units:
        eq(pos, len(r.section_data('.debug_abbrev')), name + ' .debug_abbrev size')
    # list section headers (v5)
    for sec in ('.debug_loclists', '.debug_rnglists'):
        if sec in m.section_data:
            hs = r.list_headers(sec)
            eq(hs[-1][-1], len(m.section_data[sec]), name + ' %s headers cover the section' % sec)
            lists = m.loclists if sec == '.debug_loclists' else m.rangelists
            lists = [x for x in lists if x.section == sec]
            for h in hs:
                inside = [x for x in lists if h[0] < x.offset < h[8]]
                check(inside and inside[0].offset == h[7], name + ' %s: first list right after the header' % sec)
                eq((h[2], h[3], h[4], h[5], h[6]), (inside[0].unit.offset_size, 5, inside[0].unit.address_size, 0, 0), name + sec + ' header')
    # symbols
    rs = r.symbols()
    want = m.with_symtab if m.with_symtab is not None else bool(m.symbols)
    if not want:
        eq(rs, [], name + ' no symtab')
    elif eq(len(rs), len(m.symbols) + 1, name + ' symbol count'):
        s0 = rs[0]
        eq((s0.name, s0.value, s0.size, s0.info, s0.other, s0.shndx), (b'', 0, 0, 0, 0, 0), name + ' null symbol')
        for ms, s in zip(m.symbols, rs[1:]):
            shndx = ms.shndx.index if isinstance(ms.shndx, g.Section) else ms.shndx
            eq((s.index, s.name, s.value, s.size, s.type, s.bind, s.other, s.visibility, s.shndx),
               (ms.index, ms.name, ms.value, ms.size, ms.type, ms.bind, ms.other, ms.other & 3, shndx), '%s symbol %d' % (name, ms.index))
        st = r.section('.symtab')
        eq(r.sections[st.link].name, '.strtab', name + ' symtab link')
        loc = [s.index for s in rs if s.bind == 0]
        eq(st.info, next((s.index for s in rs if s.bind != 0), len(rs)), name + ' symtab sh_info')
        del loc


# --------------------------------------------------------------------------
# 2. the real consumer
# --------------------------------------------------------------------------

def seq_items(s):
    """'[a@0,b@1]@0' -> ['a@0', 'b@1']"""
    m = re.fullmatch(r'\[(.*)\]@\d+', s)
    return m.group(1).split(',') if m and m.group(1) else []


def nops(x, u):
    if isinstance(x, (bytes, bytearray)):
        return len(dwread.decode_expr(bytes(x), u.address_size, u.offset_size, u.version))
    return len(x)


# operand kinds whose Dwarf_Op.number/number2 are plain numbers (libdw stores pointers for block operands)
def libdw_numbers(opc, vals, spec):
    """(number, number2) as libdw fills them, or None where it stores a pointer"""
    nums = []
    if spec == ('refo', 'S'):       # libdw reads the byte offset of DW_OP_(GNU_)implicit_pointer as ULEB128
        return vals[0], dwread.Cursor(g.sleb(vals[1])).uleb() & U64
    for k, v in zip(spec, vals):
        if k in ('blk', 'expr'):
            nums += [len(v), None]
        elif k == 'cblk':
            nums += [None]
        else:
            nums.append(v & U64)
    nums += [0, 0]
    return nums[0], nums[1]


def form_values(run, name, fid, dies):
    """decoded value of every attribute of the forms model, one query each (attribute names are in the
    DW_AT_lo_user range, so dwgrep applies its form-only defaults)"""
    n = lambda f: F['DW_FORM_' + f]
    d = dies[1]
    for i, a in enumerate(d.attrs):
        f, v = a.form, a.resolved
        if f == n('addr'):
            exp = 'c:Dwarf_Address:%d' % v
        elif f in (n('block1'), n('block2'), n('block4'), n('block')):
            exp = '[' + ','.join('c:hex:%d@0' % b for b in v) + ']'
        elif f in (n('data1'), n('data2'), n('data4'), n('data8'), n('udata'), n('sdata')):
            exp = 'c:dec:%d' % v
        elif f == n('implicit_const'):
            exp = 'c:dec:%d' % (v & U64)         # unknown attribute: shown as unsigned
        elif f in (n('string'), n('strp'), n('line_strp')):
            exp = 's:x' + v.hex()
        elif f in (n('flag'), n('flag_present')):
            exp = 'c:bool:%d' % v
        elif f in (n('ref1'), n('ref2'), n('ref4'), n('ref8'), n('ref_udata'), n('ref_addr')):
            exp = 'D:%s:%x:c:' % (fid, v)
        elif f == n('exprloc'):
            exp = 'LE:0:%x:%d' % (U64, len(dwread.decode_expr(v, d.unit.address_size, d.unit.offset_size, d.unit.version)))
        else:
            continue      # sec_offset on an unknown attribute: libdw says "invalid DWARF"; ref_sig8: "(form unhandled)";
                          # data16: "no constant value"
        res = run('raw entry (pos == 1) attribute (pos == %d) value' % i)
        eq([x.rsplit('@', 1)[0] for x in res], [exp], '%s value of %r' % (name, a))


def consumer(drv_, dmod, name, m, path, handle):
    resp = drv_.cmd('open id=%s path=%s' % (handle, dmod.hx(path)))
    if not check(resp.lines and resp.lines[0].startswith('ok'), '%s: open failed: %r' % (name, [dmod.unhx(l.split()[1]) if l.startswith('err') else l for l in resp.lines])):
        return
    fid = resp.lines[0].split()[1]
    errs = []

    def run(q):
        r = drv_.run(q, i=handle)
        check(r.crash is None, '%s: %s crashed: %r' % (name, q, r.crash))
        if r.stderr.strip():
            errs.append((q, r.stderr))
        for l in r.lines:
            if l.startswith('e '):
                errs.append((q, dmod.unhx(l[2:])))
        return [x.split(' ')[-1] for x in r.results()]        # top of stack only

    dies = list(m.all_dies())
    if m.units:
        res = run('raw entry')
        eq(res, ['D:%s:%x:r:@%d' % (fid, d.offset, i) for i, d in enumerate(dies)], name + ' raw entry')
        res = run('raw unit')
        eq(res, ['U:%s:%x:r@%d' % (fid, u.offset, i) for i, u in enumerate(m.units)], name + ' raw unit')
        res = run('raw unit root')
        eq(res, ['D:%s:%x:r:@0' % (fid, u.root.offset) for u in m.units], name + ' raw unit root')
        res = run('raw entry attribute')
        exp = ['A:%x:%x:r:{D:%s:%x:r:}@%d' % (a.name, a.form, fid, d.offset, i) for d in dies for i, a in enumerate(d.attrs)]
        eq(len(res), len(exp), name + ' attribute count')
        eq(res, exp, name + ' attributes')
        res = run('raw entry [child offset]')
        eq([[int(x.split(':')[2].split('@')[0]) for x in seq_items(s)] for s in res], [[c.offset for c in d.children] for d in dies],
           name + ' children')
        res = run('raw entry (?haschildren 1 || 0)')
        eq([int(x.split(':')[2].split('@')[0]) for x in res], [int(d.has_children) for d in dies], name + ' ?haschildren')
        res = run('raw entry abbrev')
        eq(res, ['B:%s:%d:%x:%d@0' % (fid, d.abbrev.code, d.abbrev.tag, d.abbrev.children) for d in dies], name + ' entry abbrev')
        res = run('raw entry abbrev offset')
        eq([int(x.split(':')[2].split('@')[0]) for x in res], [d.abbrev.offset for d in dies], name + ' abbrev offset')
        # all abbreviations of all tables, each table once per unit using it (dwgrep: "abbrev" on a Dwarf)
        res = run('raw entry abbrev [attribute]')
        exp = [['BA:%x:%x:%x@%d' % (n, f, o, i)
                for i, ((n, f, _), o) in enumerate(zip(d.abbrev.specs, d.abbrev.libdw_attr_offsets))] for d in dies]
        eq([seq_items(s) for s in res], exp, name + ' abbrev attributes')
        # `abbrev` on the Dwarf: one abbreviation unit per distinct table, each abbreviation once
        res = run('abbrev entry')
        eq(res, ['B:%s:%d:%x:%d@%d' % (fid, a.code, a.tag, a.children, i) for tb in m.abbrev_tables for i, a in enumerate(tb.abbrevs)],
           name + ' abbrev entry')
        res = run('abbrev entry offset')
        eq([int(x.split(':')[2].split('@')[0]) for x in res], [a.offset for tb in m.abbrev_tables for a in tb.abbrevs], name + ' abbrev entry offset')
        res = run('abbrev')
        eq(res, ['BU:%s:%x@%d' % (fid, next(u for u in m.units if u.abbrev_table is tb).root.offset, i) for i, tb in enumerate(m.abbrev_tables)],
           name + ' abbrev units')
        # locations
        res = run('raw entry ?AT_location [offset, @AT_location]')
        got = {}
        for s in res:
            it = seq_items(s)
            got[int(it[0].split(':')[2].split('@')[0])] = [tuple(x.split('@')[0].split(':')[1:]) for x in it[1:]]
        exp = {}
        for d in dies:
            a = d.attr('DW_AT_location')
            if a is None:
                continue
            u = d.unit
            if isinstance(a.value, g.LocList):
                exp[d.offset] = [('%x' % lo, '%x' % hi, '%d' % nops(x, a.value.unit)) for lo, hi, x in a.value.ranges(root_base(u))]
            else:
                exp[d.offset] = [('0', '%x' % U64, '%d' % nops(a.value, u))]
        eq(got, exp, name + ' location ranges')
        res = run('raw entry ?AT_location [offset, @AT_location elem]')
        for s in res:
            it = seq_items(s)
            off = int(it[0].split(':')[2].split('@')[0])
            d = next(x for x in dies if x.offset == off)
            a, u = d.attr('DW_AT_location'), d.unit
            exprs = [x for _, _, x in a.value.ranges(0)] if isinstance(a.value, g.LocList) else [a.value]
            lu = a.value.unit if isinstance(a.value, g.LocList) else u
            want = []
            for x in exprs:
                if isinstance(x, (bytes, bytearray)):
                    x = [(o[1],) + o[2] for o in dwread.decode_expr(bytes(x), lu.address_size, lu.offset_size, lu.version)]
                for (o, opc, vals), op in zip(g.resolve_ops(x, lu.address_size, lu.offset_size, lu.version, lu), x):
                    want.append((opc, o) + libdw_numbers(opc, vals, g.OP_OPERANDS.get(opc, ())))
            have = []
            for x in it[1:]:
                _, atom, n1, n2, o = x.split('@')[0].split(':')
                have.append((int(atom, 16), int(o, 16), int(n1, 16), int(n2, 16)))
            if eq(len(have), len(want), '%s die@%x op count' % (name, off)):
                for h, w in zip(have, want):
                    check(h[:2] == w[:2] and (w[2] is None or h[2] == w[2]) and (w[3] is None or h[3] == w[3]),
                          '%s die@%x op %r != %r' % (name, off, h, w))
        # ranges
        res = run('raw entry ?AT_ranges [offset, address]')
        got = {}
        for s in res:           # the address set has commas of its own
            mm = re.fullmatch(r'\[c:Dwarf_Off:(\d+)@0,(AS:[^@]*)@\d+\]@\d+', s)
            if check(mm is not None, name + ' unexpected ranges answer ' + s):
                got[int(mm.group(1))] = mm.group(2)
        exp = {}
        for d in dies:
            a = d.attr('DW_AT_ranges')
            if a is not None and isinstance(a.value, g.RangeList):
                cov = sorted((lo, hi) for lo, hi in a.value.ranges(root_base(d.unit)) if hi > lo)
                exp[d.offset] = 'AS:' + ','.join('%x+%x' % (lo, hi - lo) for lo, hi in cov)
        eq(got, exp, name + ' ranges')
        # decl_file
        res = run('entry ?AT_decl_file [offset, @AT_decl_file]')     # raw @AT_decl_file is the bare number
        got = {}
        for s in res:
            it = seq_items(s)
            v = it[1].split('@')[0] if len(it) > 1 else None
            got[int(it[0].split(':')[2].split('@')[0])] = dmod.unhx(v[2:]) if v and v.startswith('s:') else v
        exp = {}
        for d in dies:
            a = d.attr('DW_AT_decl_file')
            if a is not None:
                sl = d.unit.root.attr('DW_AT_stmt_list')
                exp[d.offset] = sl.value.path(a.value, b'/src')
                if a.form == F['DW_FORM_udata']:        # dwgrep quirk: udata/sdata are decoded by form alone, no file lookup
                    exp[d.offset] = 'c:dec:%d' % a.value
        eq(got, exp, name + ' decl_file')
        # names: strings of every string form
        res = run('raw entry ?AT_name [offset, @AT_name]')
        got = {}
        for s in res:
            it = seq_items(s)
            got[int(it[0].split(':')[2].split('@')[0])] = dmod.unhx(it[1].split('@')[0][2:]) if len(it) > 1 else None
        strs = getattr(m, 'xforms_truth', [None])[0]
        eq(got, {d.offset: (a.resolved if isinstance(a.resolved, bytes) else strs[a.resolved]) for d in dies for a in [d.attr('DW_AT_name')] if a},
           name + ' names')
        # references resolve to the DIE the model points at
        for an in ('DW_AT_type', 'DW_AT_import', 'DW_AT_abstract_origin', 'DW_AT_sibling'):
            res = run('raw entry ?%s [offset, @%s offset]' % (an[3:], an[3:]))
            got = {}
            for s in res:
                it = [int(x.split(':')[2].split('@')[0]) for x in seq_items(s)]
                got[it[0]] = it[1:]
            refs = (F['DW_FORM_ref1'], F['DW_FORM_ref2'], F['DW_FORM_ref4'], F['DW_FORM_ref8'], F['DW_FORM_ref_udata'], F['DW_FORM_ref_addr'])
            exp = {d.offset: [a.resolved] for d in dies for a in [d.attr(an)] if a and a.form in refs}
            # DW_AT_sibling pointing at the parent's terminating null entry is not a DIE
            if an == 'DW_AT_sibling':
                alld = {d.offset for d in dies}
                exp = {k: v for k, v in exp.items() if v[0] in alld}
                got = {k: v for k, v in got.items() if k in exp}
            eq(got, exp, '%s %s targets' % (name, an))
        if name.startswith('forms-'):
            form_values(run, name, fid, dies)
    # symbols: dwgrep yields every .symtab entry including the null symbol at index 0
    want = m.with_symtab if m.with_symtab is not None else bool(m.symbols)
    if want:
        res = run('symbol')
        eq(res, ['SY:%s:%d:%s@%d' % (fid, i, dmod.hx(s.name), i) for i, s in enumerate([g.Sym(shndx=0)] + m.symbols)], name + ' symbol')
        # `symbol label` / `binding` on an EM_NONE file trip assert (machine != EM_NONE) in dwfl_context::get_machine
        none = m.e_machine == 0
        res = run('symbol [%ssize, value, visibility]' % ('' if none else 'label, binding, '))
        exp = [([] if none else [s.type, s.bind]) + [s.size, s.value, s.other & 3] for s in [g.Sym(shndx=0)] + m.symbols]
        eq([[int(x.split('@')[0].split(':')[2]) for x in seq_items(s)] for s in res], exp, name + ' symbol fields')
    elif m.units:             # without .symtab `symbol` fails with libdwfl's "No symbol table found"
        r = drv_.run('symbol', i=handle)
        eq([dmod.unhx(l[2:]) for l in r.lines if l.startswith('e ')], [b'No symbol table found'], name + ' symbol without .symtab')
    check(not errs, '%s: diagnostics from the consumer: %r' % (name, errs[:3]))
    drv_.cmd('close id=' + handle)


def start_driver():
    try:
        import build
        import drv as dmod
        b = build.build('san', ['zwdrv'], quiet=True)['zwdrv']
        return dmod.Drv(b, 'full', timeout=120.0), dmod
    except Exception as e:            # the build infrastructure is not part of this module
        print('SKIP consumer checks: cannot build/start zwdrv: %r' % (e,))
        return None, None


# --------------------------------------------------------------------------
# 3. readelf on generated files
# --------------------------------------------------------------------------

def readelf_clean(name, path, sym_order_ok=False):
    p = subprocess.run(['readelf', '--debug-dump=info,abbrev,loc,Ranges,rawline', '-sW', '-S', path], stdout=subprocess.PIPE,
                       stderr=subprocess.PIPE)
    err = p.stderr.decode('latin-1')
    bad = [l for l in err.splitlines() if l.strip()]
    if sym_order_ok:     # models with every binding in any order necessarily have locals after sh_info
        bad = [l for l in bad if 'local symbol' not in l]
    check(p.returncode == 0 and not bad, '%s: readelf complains: %r' % (name, bad[:3]))
    return p.stdout.decode('latin-1')


def readelf_dies(txt):
    """[(depth, offset, abbrev, tag name)] from readelf --debug-dump=info output (null entries skipped)"""
    out = []
    for m in re.finditer(r'^ <(\d+)><([0-9a-f]+)>: Abbrev Number: (\d+)(?: \((\w+)\))?', txt, re.M):
        if m.group(3) != '0':
            tag = m.group(4)          # binutils spells a few names differently from dwarf.h
            tag = tag if tag in DW else (tag + 'eter' if tag + 'eter' in DW else tag)
            out.append((int(m.group(1)), int(m.group(2), 16), int(m.group(3)), tag))
    return out


def depth_of(d):
    n = 0
    while d.parent is not None:
        d, n = d.parent, n + 1
    return n


def readelf_syms(txt):
    """{table: [(index, value, size, visibility, ndx, name)]} from readelf -sW"""
    syms, tab = {}, None
    for line in txt.splitlines():
        mm = re.match(r"Symbol table '(\S+)'", line)
        if mm:
            tab = mm.group(1)
            syms[tab] = []
        mm = re.match(r'\s*(\d+): ([0-9a-f]+)\s+(\d+|0x[0-9a-f]+) (.*?) (DEFAULT|INTERNAL|HIDDEN|PROTECTED)\s+(?:\[.*?\]\s+)?(\S+)(?: (.*))?$', line)
        if mm and tab:
            syms[tab].append((int(mm.group(1)), int(mm.group(2), 16), int(mm.group(3), 0), mm.group(5), mm.group(6), (mm.group(7) or '').strip()))
    return syms


def sym_row(index, value, size, other, shndx, name):
    ndx = {0: 'UND', 0xfff1: 'ABS', 0xfff2: 'COM'}.get(shndx, str(shndx))
    return (index, value, size, g.dw_name('STV', other & 3)[4:], ndx, name.decode('latin-1').strip())


def readelf_check_model(name, m, path):
    txt = readelf_clean(name, path, sym_order_ok=name.startswith('syms-'))
    if m.symbols:
        # readelf shows the section name for nameless STT_SECTION symbols
        exp = [sym_row(0, 0, 0, 0, 0, b'')] + [sym_row(s.index, s.value, s.size, s.other, s.shndx.index if isinstance(s.shndx, g.Section) else s.shndx,
                                                     s.shndx.name.encode() if s.type == 3 and not s.name and isinstance(s.shndx, g.Section) else s.name)
                                             for s in m.symbols]
        eq(readelf_syms(txt).get('.symtab'), exp, name + ' readelf symbols')
    if not m.units:
        return
    rd = readelf_dies(txt)
    exp = [(depth_of(d), d.offset, d.abbrev_code, g.dw_name('DW_TAG', d.tag)) for d in m.all_dies()]
    eq(rd, exp, name + ' readelf DIE list')


# --------------------------------------------------------------------------
# 4. compiler output
# --------------------------------------------------------------------------

C_SRC = r'''
#include <stddef.h>
struct list { struct list *next; int val; const char *name; };
enum color { RED, GREEN = 5, BLUE = -1 };
typedef unsigned long ulong_t;
static int counter;
volatile enum color shade = GREEN;
static inline int twice (int x) { return x * 2; }
int walk (struct list *l, ulong_t lim)
{
  int sum = 0;
  for (ulong_t i = 0; l != NULL && i < lim; l = l->next, ++i)
    {
      int t = twice (l->val);
      if (t > 10) { long big = t * 3L; sum += (int) big; }
      else sum += t;
      counter++;
    }
  return sum + counter;
}
double scale (double d, float f) { return d * f + shade; }
'''


def gcc_objects(tmp):
    if not shutil.which('gcc'):
        print('SKIP gcc objects: no gcc')
        return []
    src = os.path.join(tmp, 'cc.c')
    open(src, 'w').write(C_SRC)
    out = []
    srcs = [src] + (sorted(os.path.join('/repo/tests', f) for f in os.listdir('/repo/tests') if f.endswith(('.c', '.cc')))
                    if os.path.isdir('/repo/tests') else [])
    for v in (2, 3, 4, 5):
        for opt in ('-O0', '-O2'):
            for s in srcs:
                if opt == '-O2' and s != src and 'types' not in s and 'aranges' not in s:
                    continue
                o = os.path.join(tmp, 'cc-%s-v%d%s.so' % (os.path.basename(s).replace('.', '_'), v, opt))
                p = subprocess.run(['gcc', '-g', '-gdwarf-%d' % v, opt, '-w', '-shared', '-fPIC', '-nostdlib', '-o', o, s],
                                   stdout=subprocess.PIPE, stderr=subprocess.PIPE)
                if p.returncode == 0:
                    out.append(o)
                elif s == src:
                    check(False, 'gcc failed on the built-in source: ' + p.stderr.decode()[:300])
    return out


def split_dwarf_check(tmp):
    """gcc -gsplit-dwarf: the .dwo file has strx/addrx/loclistx/rnglistx forms"""
    so = os.path.join(tmp, 'split.so')
    p = subprocess.run(['gcc', '-g', '-gdwarf-5', '-gsplit-dwarf', '-O2', '-w', '-shared', '-fPIC', '-nostdlib', '-o', so, os.path.join(tmp, 'cc.c')],
                       stdout=subprocess.PIPE, stderr=subprocess.PIPE)
    dwo = [f for f in os.listdir(tmp) if f.endswith('.dwo')]
    if p.returncode != 0 or not dwo:
        print('SKIP split DWARF: gcc -gsplit-dwarf did not produce a .dwo')
        return
    r = dwread.ElfReader(so)
    eq([u.unit_type for u in r.units], [DW['DW_UT_skeleton']], 'split: skeleton unit')
    eq(os.path.basename(r.units[0].root.attr('DW_AT_dwo_name').value), dwo[0].encode(), 'split: dwo name')
    r2 = dwread.ElfReader(os.path.join(tmp, dwo[0]), suffix='.dwo')
    u = r2.units[0]
    eq((u.unit_type, u.dwo_id), (DW['DW_UT_split_compile'], r.units[0].dwo_id), 'split: dwo unit')
    forms = {g.dw_name('DW_FORM', a.form) for d in u.dies for a in d.attrs}
    check({'DW_FORM_strx', 'DW_FORM_addrx', 'DW_FORM_loclistx', 'DW_FORM_rnglistx'} <= forms, 'split: index forms present: %r' % forms)
    eq(r2.resolve_indexed(u.root.attr('DW_AT_name'), u), os.path.join(tmp, 'cc.c').encode(), 'split: strx name')
    names = {r2.resolve_indexed(a, u) for d in u.dies for a in d.attrs if a.name == DW['DW_AT_name'] and a.form == F['DW_FORM_strx']}
    check({b'walk', b'twice', b'counter'} <= names, 'split: strx names %r' % names)
    nl = 0
    for d in u.dies:
        for a in d.attrs:
            if a.form == F['DW_FORM_loclistx']:
                ll = r2.loclist(r2.resolve_indexed(a, u), u)
                check(len(ll.entries) > 0 and all(len(r2.decode_expr(e[-1], u)) > 0 for e in ll.entries if isinstance(e[-1], bytes)), 'split: loclistx list decodes')
                nl += 1
            if a.form == F['DW_FORM_rnglistx']:
                check(len(r2.rangelist(r2.resolve_indexed(a, u), u).entries) > 0, 'split: rnglistx list decodes')
            if a.form == F['DW_FORM_exprloc']:
                r2.decode_expr(a.value, u)
    check(nl > 0, 'split: has location lists')
    if shutil.which('readelf'):
        p = subprocess.run(['readelf', '--debug-dump=info', os.path.join(tmp, dwo[0])], stdout=subprocess.PIPE, stderr=subprocess.PIPE)
        eq([(depth_of(d), d.offset, d.abbrev_code, g.dw_name('DW_TAG', d.tag)) for d in u.dies], readelf_dies(p.stdout.decode('latin-1')), 'split: DIEs vs readelf')


def compiler_check(path, drv_, dmod):
    name = os.path.basename(path)
    r = dwread.ElfReader(path)
    dies = list(r.all_dies())
    if not dies:
        check('cc_c' not in name, name + ': has DIEs')
        return
    for d in dies:                                      # every expression / list / reference decodes
        for a in d.attrs:
            if a.form == F['DW_FORM_exprloc']:
                r.decode_expr(a.value, d.unit)
            if a.form in (F['DW_FORM_ref4'], F['DW_FORM_ref_addr'], F['DW_FORM_ref_udata'], F['DW_FORM_ref1'], F['DW_FORM_ref2'], F['DW_FORM_ref8']):
                check(r.die_at(a.value) is not None, '%s: die@%x %r points to no DIE' % (name, d.offset, a))
            listy = a.form == F['DW_FORM_sec_offset'] or (d.unit.version < 4 and a.form in (F['DW_FORM_data4'], F['DW_FORM_data8']))
            if a.name in (DW['DW_AT_location'], DW['DW_AT_frame_base'], DW['DW_AT_data_member_location']) and listy:
                ll = r.loclist(a.value, d.unit)
                for _, _, x in ll.ranges:
                    r.decode_expr(x, d.unit)
            if a.name == DW['DW_AT_location'] and a.form == F['DW_FORM_loclistx']:
                off = r.resolve_indexed(a, d.unit)
                if off is not None:
                    r.loclist(off, d.unit)
            if a.name == DW['DW_AT_ranges'] and (listy or a.form == F['DW_FORM_rnglistx']):
                off = a.value if listy else r.resolve_indexed(a, d.unit)
                if off is not None:
                    r.rangelist(off, d.unit)
            if a.name == DW['DW_AT_stmt_list']:
                lt = r.line_table(a.value)
                check(len(lt.files) > 0, name + ': line table has files')
            if a.form in (F['DW_FORM_strx'], F['DW_FORM_strx1'], F['DW_FORM_strx2'], F['DW_FORM_strx3'], F['DW_FORM_strx4']):
                check(isinstance(r.resolve_indexed(a, d.unit), bytes), name + ': strx resolves')
    if shutil.which('readelf'):
        p = subprocess.run(['readelf', '--debug-dump=info', '-sW', path], stdout=subprocess.PIPE, stderr=subprocess.PIPE)
        txt = p.stdout.decode('latin-1')
        rd = readelf_dies(txt)
        eq([(depth_of(d), d.offset, d.abbrev_code, g.dw_name('DW_TAG', d.tag)) for d in dies], rd, name + ' DIEs vs readelf')
        # names: readelf prints "DW_AT_name : (strp) (offset: 0x..): text" or "DW_AT_name : text"
        names = re.findall(r'^\s+<[0-9a-f]+>\s+DW_AT_name\s*: (?:\([^)]*\) )*(?:\((?:indirect (?:line )?string, )?offset: (?:0x)?[0-9a-f]+\): )?(.*)$', txt, re.M)
        mine = [a.value.decode('latin-1') for d in dies for a in d.attrs if a.name == DW['DW_AT_name'] and isinstance(a.value, bytes)]
        eq([n.strip() for n in names], [n.strip() for n in mine], name + ' DW_AT_name values vs readelf')
        # symbols
        for tab, lst in readelf_syms(txt).items():
            eq([sym_row(s.index, s.value, s.size, s.other, s.shndx, s.name) for s in r.symbols(tab)], lst, '%s symbols of %s vs readelf' % (name, tab))
    if drv_ is not None:
        resp = drv_.cmd('open id=d9 path=' + dmod.hx(path))
        if check(resp.lines and resp.lines[0].startswith('ok'), name + ': consumer opens it'):
            fid = resp.lines[0].split()[1]
            res = drv_.run('raw entry', i='d9').results()
            eq(res, ['D:%s:%x:r:@%d' % (fid, d.offset, i) for i, d in enumerate(dies)], name + ' raw entry vs dwread')
            res = drv_.run('raw entry attribute', i='d9').results()
            eq(res, ['A:%x:%x:r:{D:%s:%x:r:}@%d' % (a.name, a.form, fid, d.offset, i) for d in dies for i, a in enumerate(d.attrs)],
               name + ' attributes vs dwread')
            res = [x.split(' ')[-1] for x in drv_.run('raw entry ?AT_location [offset, @AT_location]', i='d9').results()]
            got = {}
            for s in res:
                it = seq_items(s)
                got[int(it[0].split(':')[2].split('@')[0])] = [tuple(x.split('@')[0].split(':')[1:]) for x in it[1:]]
            exp = {}
            for d in dies:
                a = d.attr('DW_AT_location')
                if a is None:
                    continue
                if a.form in (F['DW_FORM_exprloc'], F['DW_FORM_block1'], F['DW_FORM_block2'], F['DW_FORM_block4'], F['DW_FORM_block']):
                    exp[d.offset] = [('0', '%x' % U64, '%d' % len(r.decode_expr(a.value, d.unit)))]
                else:
                    off = a.value if a.form != F['DW_FORM_loclistx'] else r.resolve_indexed(a, d.unit)
                    exp[d.offset] = [('%x' % lo, '%x' % hi, '%d' % len(r.decode_expr(x, d.unit))) for lo, hi, x in r.loclist(off, d.unit).ranges]
            eq(got, exp, name + ' location lists vs dwread')
            res = drv_.run('symbol', i='d9').results()
            mine = r.symbols('.symtab')
            eq([x.split(':')[3].split('@')[0] for x in res], [dmod.hx(s.name) for s in mine], name + ' symbols vs dwread')
        drv_.cmd('close id=d9')


# --------------------------------------------------------------------------
# unit tests of small things
# --------------------------------------------------------------------------

def small_things():
    eq(g.uleb(0), b'\0', 'uleb 0')
    eq(g.uleb(127), b'\x7f', 'uleb 127')
    eq(g.uleb(128), b'\x80\x01', 'uleb 128')
    eq(g.uleb(624485), b'\xe5\x8e\x26', 'uleb spec example')
    eq(g.sleb(-123456), b'\xc0\xbb\x78', 'sleb spec example')
    eq([g.sleb(x) for x in (2, -2, 127, -127, 128, -128, 63, 64, -64, -65)],
       [b'\x02', b'\x7e', b'\xff\x00', b'\x81\x7f', b'\x80\x01', b'\x80\x7f', b'\x3f', b'\xc0\x00', b'\x40', b'\xbf\x7f'], 'sleb table')
    for v in [0, 1, -1, 63, 64, -64, -65, 1 << 62, -(1 << 63), (1 << 63) - 1]:
        eq(dwread.Cursor(g.sleb(v)).sleb(), v, 'sleb round trip %d' % v)
    for v in [0, 1, 127, 128, 16383, 16384, (1 << 64) - 1]:
        eq(dwread.Cursor(g.uleb(v)).uleb(), v, 'uleb round trip %d' % v)
    eq(g.DW['DW_TAG_compile_unit'], 0x11, 'DW_TAG_compile_unit')
    eq(g.DW_AT['DW_AT_name'], 3, 'DW_AT_name')
    eq(g.DW_OP['DW_OP_GNU_entry_value'], 0xf3, 'DW_OP_GNU_entry_value')
    eq((g.ELF['EM_X86_64'], g.ELF['ET_DYN'], g.ELF['SHF_ALLOC'], g.ELF['STT_GNU_IFUNC'], g.ELF['SHN_ABS']), (62, 3, 2, 10, 0xfff1), 'elf.h')
    eq(g.dw_name('DW_FORM', 0x17), 'DW_FORM_sec_offset', 'dw_name')
    b, offs = g.encode_ops([('DW_OP_addr', 1), 'DW_OP_deref', ('DW_OP_bregx', 200, -200), ('DW_OP_skip', -3),
                            ('DW_OP_implicit_value', b'ab'), ('DW_OP_entry_value', [('DW_OP_reg1',)]), ('DW_OP_piece', 4)], 4, 4, 4)
    eq(b, b'\x03\x01\0\0\0\x06\x92\xc8\x01\xb8\x7e\x2f\xfd\xff\x9e\x02ab\xa3\x01\x51\x93\x04', 'encode_ops bytes')
    eq(offs, [0, 5, 6, 11, 14, 18, 21], 'encode_ops offsets')
    eq(set(g.DW_OP.values()) - set(g.OP_OPERANDS) , {g.DW_OP['DW_OP_GNU_encoded_addr']}, 'every opcode but GNU_encoded_addr has an operand spec')
    for bad in (lambda: g.ElfFile([g.Unit(D(0x11, [], [D(0x34)], False))]).tobytes(),
                lambda: g.ElfFile([g.Unit(D(0x11, [A(3, 'DW_FORM_ref4', D(0x34))]))]).tobytes(),
                lambda: g.ElfFile([g.Unit(D(0x11, [A(3, 'DW_FORM_data1', 256)]))]).tobytes(),
                lambda: g.ElfFile([g.Unit(D(0x11, [A(3, 'DW_FORM_string', b'a\0b')]))]).tobytes()):
        try:
            bad()
            check(False, 'malformed model accepted')
        except (ValueError, TypeError):
            check(True, '')
    # writing the same model twice gives identical bytes; offsets do not depend on earlier layouts
    m = m_wide(300)
    eq(m.tobytes(), m.tobytes(), 'layout is repeatable')


def main():
    os.makedirs(SCRATCH, exist_ok=True)
    drv_ = None
    try:
        small_things()
        ms = models()
        paths = {}
        for name, m in ms:
            p = paths[name] = os.path.join(SCRATCH, name + '.o')
            m.write(p)
            roundtrip(name, m, p)
        print('round trip: %d models, %d checks, %d failures' % (len(ms), NCHECK[0], len(FAILS)))
        if '--no-drv' not in sys.argv:
            drv_, dmod = start_driver()
        if drv_ is not None:
            n0 = NCHECK[0]
            for i, (name, m) in enumerate(ms):
                note('consumer', name)
                consumer(drv_, dmod, name, m, paths[name], 'd%d' % (i % 7 + 1))
            print('consumer: %d checks, %d failures so far' % (NCHECK[0] - n0, len(FAILS)))
        if shutil.which('readelf'):
            n0 = NCHECK[0]
            for name, m in ms:
                if name.startswith(('wide-20000', 'syms-', 'xraw-')) and name != 'syms-EM_X86_64-t1':
                    continue
                note('readelf', name)
                readelf_check_model(name, m, paths[name])
            print('readelf: %d checks, %d failures so far' % (NCHECK[0] - n0, len(FAILS)))
        else:
            print('SKIP readelf checks: no readelf')
        n0 = NCHECK[0]
        objs = gcc_objects(SCRATCH)
        for o in objs:
            note('compiler', o)
            compiler_check(o, drv_, dmod if drv_ else None)
        if objs:
            split_dwarf_check(SCRATCH)
        print('compiler objects: %d files, %d checks, %d failures so far' % (len(objs), NCHECK[0] - n0, len(FAILS)))
    finally:
        if drv_ is not None:
            drv_.close()
        if '--keep' not in sys.argv:
            shutil.rmtree(SCRATCH, ignore_errors=True)
            try:
                os.rmdir(os.path.dirname(SCRATCH))
            except OSError:
                pass
    print('%d checks, %d failures' % (NCHECK[0], len(FAILS)))
    return 1 if FAILS else 0


if __name__ == '__main__':
    sys.exit(main())
