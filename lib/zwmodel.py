"""Reference (denotational) interpreter for the documented core of Zwerg.

Programs are ASTs (nested tuples); `render` turns them into query text,
`static_errors` predicts compile-time name errors, `run` evaluates on one
input stack and returns canonical result strings in the format of zwdrv.

AST nodes
  ('cat', [n...])            concatenation
  ('alt', [n...])            n1, n2, ...        (each branch a scope)
  ('or', [n...])             n1 || n2 ...       (each branch a scope)
  ('par', ids, n)            (n) / (|A B| n)    (scope iff ids)
  ('cap', ids, n)            [n] / [|A| n]
  ('sub', pos, ids, n)       ?(n) / !(n)        (own scope)
  ('infix', op, a, b)        a op b             op in == != < <= > >= =~ !~
  ('let', ids, n)            let A B := n;
  ('if', c, t, e)
  ('star', n) ('plus', n) ('opt', n)
  ('fmt', [part...])         part = bytes | ('splice', n) | ('dir', 's'|'d'|'x'|'o'|'b')
  ('int', value, radix)      radix in dec hex oct bin
  ('str', bytes)
  ('elist',)                 []
  ('w', name)                builtin word
  ('rd', name)               read of a bound name
  ('block', ids, n)          {n} / {|A| n}
  ('raw', text, node)        text to print, node to evaluate (for notation rewrites)
"""
import re

LO, HI = -(1 << 63), (1 << 64) - 1
ARITH_DOMS = {"dec", "hex", "oct", "bin", "pos"}
PLAIN_DOMS = {"dec", "pos"}     # numeric_constant_dom_t::plain()
INFIX_WORD = {"==": "?eq", "!=": "?ne", "<": "?lt", "<=": "?le", ">": "?gt", ">=": "?ge", "=~": "?match", "!~": "!match"}
TYPE_CODES = {}     # filled by set_type_codes(): 'T_CONST' -> int


class Unjudged(Exception):
    """The documentation does not determine the outcome (or the model does not implement it)."""


class HardError(Exception):
    """Evaluation must fail with an error through the API (e.g. stack underflow)."""


# --------------------------------------------------------------------------- values
def Cst(v, dom="dec", pos=0):
    return ("c", v, dom, pos)


def Str(b, pos=0):
    return ("s", bytes(b), pos)


def Seq(items, pos=0):
    return ("q", tuple(items), pos)


def setpos(v, pos):
    return v[:-1] + (pos,)


def vtype(v):
    return {"c": "T_CONST", "s": "T_STR", "q": "T_SEQ", "k": "T_CLOSURE"}[v[0]]


def canon(v, wild=False):
    t = v[0]
    p = "*" if (wild or v[-1] is None) else str(v[-1])
    if t == "c":
        return "c:%s:%d@%s" % (v[2], v[1], p)
    if t == "s":
        return "s:x%s@%s" % (v[1].hex(), p)
    if t == "q":
        return "[" + ",".join(canon(e, wild) for e in v[1]) + "]@" + p
    if t == "k":
        return "K@" + p
    raise ValueError(v)


def canon_stack(stk, wild=False):
    return " ".join(canon(v, wild) for v in stk) if stk else "-"


_POS = re.compile(r"@\d+")


def wild(s):
    return _POS.sub("@*", s)


def cst_eq(a, b):
    if a[2] == b[2] or (a[2] in ARITH_DOMS and b[2] in ARITH_DOMS):
        return a[1] == b[1]
    return False


def cst_cmp(a, b):
    """-1/0/1, or raises Unjudged where the order is not documented."""
    if a[2] == b[2] or (a[2] in ARITH_DOMS and b[2] in ARITH_DOMS):
        return (a[1] > b[1]) - (a[1] < b[1])
    raise Unjudged("order of constants of unrelated domains")


def vcmp(a, b):
    """Three-way comparison of same-typed values ignoring positions."""
    if a[0] != b[0]:
        raise Unjudged("cross-type order")
    if a[0] == "c":
        return cst_cmp(a, b)
    if a[0] == "s":
        return (a[1] > b[1]) - (a[1] < b[1])
    if a[0] == "q":
        if len(a[1]) != len(b[1]):
            return (len(a[1]) > len(b[1])) - (len(a[1]) < len(b[1]))
        for x, y in zip(a[1], b[1]):
            if x[0] != y[0]:
                raise Unjudged("cross-type order inside sequences")
        for x, y in zip(a[1], b[1]):
            c = vcmp(x, y)
            if c:
                return c
        return 0
    raise Unjudged("closure comparison")


def veq(a, b):
    if a[0] != b[0]:
        return False
    if a[0] == "c":
        return cst_eq(a, b)
    if a[0] == "s":
        return a[1] == b[1]
    if a[0] == "q":
        return len(a[1]) == len(b[1]) and all(veq(x, y) for x, y in zip(a[1], b[1]))
    raise Unjudged("closure comparison")


def stack_eq(a, b):
    return len(a) == len(b) and all(veq(x, y) for x, y in zip(a, b))


def show(v):
    """Text that a format splice renders for a value (value::show)."""
    t = v[0]
    if t == "s":
        return v[1]
    if t == "q":
        return b"[" + b", ".join(show(e) for e in v[1]) + b"]"
    if t == "k":
        return b"closure"
    val, dom = v[1], v[2]
    if dom in ("dec", "pos"):
        return b"%d" % val
    sign = b"-" if val < 0 else b""
    mag = abs(val)
    if dom == "hex":
        return sign + b"0x%x" % mag
    if dom == "oct":
        return sign + b"0%o" % mag
    if dom == "bin":
        return sign + b"0b" + bin(mag)[2:].encode()
    if dom == "bool":
        return b"true" if val else b"false"
    if dom == "T_*":
        for k, c in TYPE_CODES.items():
            if c == val:
                return k.encode()
    raise Unjudged("rendering of domain %s" % dom)


# --------------------------------------------------------------------------- rendering
def lit_int(v, radix):
    pre, f = {"dec": ("", "d"), "hex": ("0x", "x"), "oct": ("0o", "o"), "bin": ("0b", "b")}[radix]
    return ("-" if v < 0 else "") + pre + format(abs(v), f)


def lit_str(b):
    out = '"'
    for c in b:
        ch = chr(c)
        if ch == '"':
            out += '\\"'
        elif ch == "\\":
            out += "\\\\"
        elif ch == "%":
            out += "%%"
        elif 32 <= c < 127:
            out += ch
        else:
            out += "\\x%02x" % c
    return out + '"'


def ids_block(ids):
    return "|" + " ".join(ids) + "| " if ids else ""


def render(n):
    t = n[0]
    if t == "cat":
        return " ".join(render(c) for c in n[1])
    if t == "alt":
        return "(" + ", ".join(render(c) for c in n[1]) + ")"
    if t == "or":
        return "(" + " || ".join(render(c) for c in n[1]) + ")"
    if t == "par":
        return "(" + ids_block(n[1]) + render(n[2]) + ")"
    if t == "cap":
        body = render(n[2])
        if not n[1] and not body.strip():
            body = "()"         # `[]` alone is the empty-list literal
        return "[" + ids_block(n[1]) + body + "]"
    if t == "sub":
        return ("?(" if n[1] else "!(") + ids_block(n[2]) + render(n[3]) + ")"
    if t == "infix":
        return "(" + render(n[2]) + " " + n[1] + " " + render(n[3]) + ")"
    if t == "let":
        return "let " + " ".join(n[1]) + " := " + render(n[2]) + ";"
    if t == "if":
        return "if (" + render(n[1]) + ") then (" + render(n[2]) + ") else (" + render(n[3]) + ")"
    if t in ("star", "plus", "opt"):
        return "(" + render(n[1]) + ")" + {"star": "*", "plus": "+", "opt": "?"}[t]
    if t == "fmt":
        out = '"'
        for p in n[1]:
            if isinstance(p, bytes):
                out += lit_str(p)[1:-1]
            elif p[0] == "splice":
                out += "%( " + render(p[1]) + " %)"
            else:
                out += "%" + p[1]
        return out + '"'
    if t == "int":
        return lit_int(n[1], n[2])
    if t == "str":
        return lit_str(n[1])
    if t == "elist":
        return "[]"
    if t in ("w", "rd"):
        return n[1]
    if t == "block":
        return "{" + ids_block(n[1]) + render(n[2]) + "}"
    if t == "raw":
        return n[1]
    raise ValueError(n)


# --------------------------------------------------------------------------- static scoping
def static_errors(n, core_words):
    """Set of error kinds ('rebound', 'unbound') the compiler must report; empty = compiles."""
    errs = set()

    class Scope:
        def __init__(self, parent):
            self.names, self.parent = set(), parent

        def find(self, nm):
            s = self
            while s is not None:
                if nm in s.names:
                    return True
                s = s.parent
            return False

    def bind(sc, ids):
        for i in ids:
            if i in sc.names or (sc.parent is None and i in core_words):
                errs.add("rebound")
            sc.names.add(i)

    def walk(n, sc):
        t = n[0]
        if t == "cat":
            for c in n[1]:
                walk(c, sc)
        elif t in ("alt", "or"):
            for c in n[1]:
                walk(c, Scope(sc))
        elif t == "par":
            s2 = Scope(sc) if n[1] else sc
            bind(s2, n[1])
            walk(n[2], s2)
        elif t == "cap":
            s2 = Scope(sc)
            bind(s2, n[1])
            walk(n[2], Scope(s2))
        elif t == "sub":
            s2 = Scope(sc)
            bind(s2, n[2])
            walk(n[3], s2)
        elif t == "infix":
            walk(n[2], Scope(sc))
            walk(n[3], Scope(sc))
        elif t == "let":
            walk(n[2], Scope(sc))
            bind(sc, n[1])
        elif t == "if":
            for c in n[1:]:
                walk(c, Scope(sc))
        elif t in ("star", "plus"):
            walk(n[1], Scope(sc))
        elif t == "opt":
            walk(n[1], Scope(sc))
        elif t == "fmt":
            for p in n[1]:
                if not isinstance(p, bytes) and p[0] == "splice":
                    walk(p[1], sc)
        elif t == "rd":
            if not sc.find(n[1]) and n[1] not in core_words:
                errs.add("unbound")
        elif t == "block":
            s2 = Scope(sc)      # sees every outer name visible here
            bind(s2, n[1])
            walk(n[2], s2)
        elif t == "raw":
            walk(n[2], sc)

    # the vocabulary occupies the outermost binding table; user code runs in a scope nested in it
    walk(n, Scope(Scope(None)))
    return errs


# --------------------------------------------------------------------------- evaluation
class Run:
    def __init__(self, reach_cap=400, step_cap=20000):
        self.taint = False          # an order the documentation does not fix was produced
        self.soft = 0               # number of "Error:" diagnostics expected
        self.warn = 0
        self.reach_cap = reach_cap
        self.steps = 0
        self.step_cap = step_cap
        self.wild = False

    def tick(self, k=1):
        self.steps += k
        if self.steps > self.step_cap:
            raise Unjudged("evaluation too large for the model")

    # eval: list of (stack, env) -> list of (stack, env).  The list is the stream
    # that reaches the construct within one activation of the enclosing
    # sub-expression; only concatenation, parentheses and ALT pass a stream on.
    def ev(self, n, ins):
        t = n[0]
        if t == "cat":
            cur = ins
            for c in n[1]:
                cur = self.ev(c, cur)
                if not cur:
                    break
            return cur
        if t == "par":
            if not n[1]:
                return self.ev(n[2], ins)
            ins2 = []
            for stk, env in ins:
                s2, e2 = self.bindids(stk, env, n[1])
                e2["\0outer"] = env
                ins2.append((s2, e2))
            return [(s, e["\0outer"]) for s, e in self.ev(n[2], ins2)]
        if t in ("alt", "opt") and len(ins) > 1:
            self.taint = True   # the documentation fixes the order of alternatives for one stack only
        out = []
        for stk, env in ins:
            self.tick()
            out.extend(self.ev1(n, stk, env))
        return out

    def scoped(self, n, stk, env):
        """Results of n on (stk, env) with bindings confined: returns stacks only."""
        return [s for s, _ in self.ev(n, [(stk, env)])]

    def need(self, stk, k):
        if len(stk) < k:
            raise HardError("stack underflow")

    def bindids(self, stk, env, ids):
        self.need(stk, len(ids))
        if not ids:
            return stk, env
        env = dict(env)
        for i, nm in enumerate(ids):
            env[nm] = stk[len(stk) - len(ids) + i]
        return stk[:len(stk) - len(ids)], env

    def ev1(self, n, stk, env):
        t = n[0]
        if t == "alt":
            out = []
            for c in n[1]:
                out.extend((s, env) for s in self.scoped(c, stk, env))
            return out
        if t == "or":
            for c in n[1]:
                r = self.scoped(c, stk, env)
                if r:
                    return [(s, env) for s in r]
            return []
        if t == "cap":
            s2, e2 = self.bindids(stk, env, n[1])
            items = []
            for r in self.scoped(n[2], s2, e2):
                self.need(r, 1)
                items.append(r[-1])
            return [(s2 + (Seq(items),), env)]
        if t == "sub":
            s2, e2 = self.bindids(stk, env, n[2])
            r = self.scoped(n[3], s2, e2)
            return [(stk, env)] if bool(r) == bool(n[1]) else []
        if t == "infix":
            ra = self.scoped(n[2], stk, env)
            for x in ra:
                self.need(x, 1)
            holds = False
            for x in ra:
                rb = self.scoped(n[3], stk, env)
                for y in rb:
                    self.need(y, 1)
                    res = self.word(INFIX_WORD[n[1]], stk + (x[-1], y[-1]))
                    if res:
                        holds = True
            return [(stk, env)] if holds else []
        if t == "let":
            out = []
            for r in self.scoped(n[2], stk, env):
                self.need(r, len(n[1]))
                e2 = dict(env)
                for i, nm in enumerate(n[1]):
                    e2[nm] = r[len(r) - len(n[1]) + i]
                out.append((stk, e2))
            return out
        if t == "if":
            c = self.scoped(n[1], stk, env)
            body = n[2] if c else n[3]
            return [(s, env) for s in self.scoped(body, stk, env)]
        if t == "star":
            return [(s, env) for s in self.closure([stk], n[1], env, True)]
        if t == "plus":
            return [(s, env) for s in self.closure(self.scoped(n[1], stk, env), n[1], env, False)]
        if t == "opt":
            self.taint = True   # docs say `(, E)`, the property says `(E,)`: order not fixed
            return [(s, env) for s in self.scoped(n[1], stk, env)] + [(stk, env)]
        if t == "fmt":
            return self.fmt(n[1], stk, env)
        if t == "int":
            return [(stk + (Cst(n[1], n[2]),), env)]
        if t == "str":
            return [(stk + (Str(n[1]),), env)]
        if t == "elist":
            return [(stk + (Seq(()),), env)]
        if t == "w":
            return [(s, env) for s in self.word(n[1], stk)]
        if t == "rd":
            v = env[n[1]]
            if v[0] == "k":
                return [(s, env) for s in self.apply(stk, v)]
            return [(stk + (v,), env)]
        if t == "block":
            return [(stk + (("k", n, tuple(sorted((k, v) for k, v in env.items() if k[0] != "\0")), 0),), env)]
        if t == "raw":
            return self.ev(n[2], [(stk, env)])
        raise ValueError(n)

    def apply(self, stk, clo):
        node = clo[1]
        env = dict(clo[2])
        s2, e2 = self.bindids(stk, env, node[1])
        return self.scoped(node[2], s2, e2)

    def closure(self, starts, body, env, star):
        seen, out, work = [], [], []

        def visit(s):
            for o in seen:
                if len(o) == len(s) and all(a[0] == b[0] for a, b in zip(o, s)) and stack_eq(o, s):
                    if canon_stack(o) != canon_stack(s):
                        self.wild = True    # duplicates differ in positions only: which one survives is not documented
                    return False
            seen.append(s)
            return True

        for s in starts:
            if visit(s):
                out.append(s)
                work.append(s)
        while work:
            s = work.pop(0)
            for r in self.scoped(body, s, env):
                if visit(r):
                    out.append(r)
                    work.append(r)
                    if len(out) > self.reach_cap:
                        raise Unjudged("reachable set exceeds the cap (not finite within the bound)")
        if len(out) > 1:
            self.taint = True   # traversal order of closures is not documented
        return out

    def fmt(self, parts, stk, env):
        # splices are resolved right to left; each pops the TOS of its result
        idx = [i for i, p in enumerate(parts) if not isinstance(p, bytes)]
        cur = [(stk, env, {})]
        for i in reversed(idx):
            p = parts[i]
            nxt = []
            for s, e, done in cur:
                if p[0] == "dir":
                    body = {"s": ("cat", []), "d": ("w", "value"), "x": ("cat", [("w", "value"), ("w", "hex")]),
                            "o": ("cat", [("w", "value"), ("w", "oct")]), "b": ("cat", [("w", "value"), ("w", "bin")])}[p[1]]
                else:
                    body = p[1]
                # a splice is a plain context: bindings made inside escape to splices further left
                for s2, e2 in self.ev(body, [(s, e)]):
                    self.need(s2, 1)
                    d2 = dict(done)
                    d2[i] = show(s2[-1])
                    nxt.append((s2[:-1], e2, d2))
            cur = nxt
        out = []
        for k, (s, e, done) in enumerate(cur):
            text = b"".join(p if isinstance(p, bytes) else done[i] for i, p in enumerate(parts))
            out.append((s + (Str(text, k),), env))
        return out

    # ---- builtin words; returns list of stacks
    def err(self):
        self.soft += 1
        return []

    def word(self, w, stk):
        self.tick()
        if w in ("dup", "over", "swap", "rot", "drop"):
            k = {"dup": 1, "over": 2, "swap": 2, "rot": 3, "drop": 1}[w]
            self.need(stk, k)
            if w == "dup":
                return [stk + (stk[-1],)]
            if w == "over":
                return [stk + (stk[-2],)]
            if w == "swap":
                return [stk[:-2] + (stk[-1], stk[-2])]
            if w == "rot":
                return [stk[:-3] + (stk[-2], stk[-1], stk[-3])]
            return [stk[:-1]]
        if w in ("true", "false"):
            return [stk + (Cst(int(w == "true"), "bool"),)]
        if w in TYPE_CODES:
            return [stk + (Cst(TYPE_CODES[w], "T_*"),)]
        if w == "type":
            self.need(stk, 1)
            return [stk[:-1] + (Cst(TYPE_CODES[vtype(stk[-1])], "T_*"),)]
        if w == "pos":
            self.need(stk, 1)
            if stk[-1][-1] is None:
                raise Unjudged("position of a de-duplicated value")
            return [stk[:-1] + (Cst(stk[-1][-1], "pos"),)]
        m = re.fullmatch(r"([?!])(\d+)", w)
        if m:
            self.need(stk, 1)
            if stk[-1][-1] is None:
                raise Unjudged("position of a de-duplicated value")
            hold = stk[-1][-1] == int(m.group(2))
            return [stk] if hold == (m.group(1) == "?") else []
        if w in ("hex", "dec", "oct", "bin"):
            self.need(stk, 1)
            v = stk[-1]
            if v[0] != "c":
                return self.err()
            return [stk[:-1] + (Cst(v[1], w),)]
        if w == "apply":
            self.need(stk, 1)
            if stk[-1][0] != "k":
                return self.err()
            return self.apply(stk[:-1], stk[-1])
        if w in ("?eq", "!eq", "?ne", "!ne", "?lt", "!lt", "?gt", "!gt", "?le", "!le", "?ge", "!ge", "==", "!=", "<", ">", "<=", ">="):
            self.need(stk, 2)
            a, b = stk[-2], stk[-1]
            base = {"==": "?eq", "!=": "?ne", "<": "?lt", ">": "?gt", "<=": "?le", ">=": "?ge"}.get(w, w)
            name = base[1:]
            pos = base[0] == "?"
            if a[0] != b[0]:
                if name in ("eq", "ne"):
                    r = name == "ne"
                else:
                    raise Unjudged("cross-type order")
            else:
                if name in ("eq", "ne"):
                    r = veq(a, b) == (name == "eq")
                else:
                    c = vcmp(a, b)
                    r = {"lt": c < 0, "gt": c > 0, "le": c <= 0, "ge": c >= 0}[name]
            return [stk] if r == pos else []
        # overloaded words
        sig = tuple(v[0] for v in stk)
        if w in ("add", "sub", "mul", "div", "mod"):
            if len(stk) >= 2 and sig[-2:] == ("c", "c"):
                a, b = stk[-2], stk[-1]
                if a[2] not in ARITH_DOMS | {"bool", "T_*"} or b[2] not in ARITH_DOMS | {"bool", "T_*"}:
                    raise Unjudged("arithmetic domain")
                if a[2] not in ARITH_DOMS or b[2] not in ARITH_DOMS:
                    self.warn += 1
                dom = b[2] if a[2] in PLAIN_DOMS else a[2]
                x, y = a[1], b[1]
                if w in ("div", "mod") and y == 0:
                    return self.err()
                r = {"add": lambda: x + y, "sub": lambda: x - y, "mul": lambda: x * y,
                     "div": lambda: x // y, "mod": lambda: x % y}[w]()
                if not LO <= r <= HI:
                    return self.err()
                return [stk[:-2] + (Cst(r, dom),)]
            if w == "add" and len(stk) >= 2 and sig[-2:] == ("s", "s"):
                return [stk[:-2] + (Str(stk[-2][1] + stk[-1][1]),)]
            if w == "add" and len(stk) >= 2 and sig[-2:] == ("q", "q"):
                return [stk[:-2] + (Seq(stk[-2][1] + stk[-1][1]),)]
            return self.err()
        if w == "length":
            if stk and sig[-1] in ("s", "q"):
                return [stk[:-1] + (Cst(len(stk[-1][1])),)]
            return self.err()
        if w in ("elem", "relem"):
            if stk and sig[-1] == "s":
                b = stk[-1][1]
                items = [Str(bytes([c])) for c in b]
            elif stk and sig[-1] == "q":
                items = list(stk[-1][1])
            else:
                return self.err()
            if w == "relem":
                items.reverse()
            return [stk[:-1] + (setpos(v, i),) for i, v in enumerate(items)]
        if w == "value":
            if stk and sig[-1] == "c":
                return [stk[:-1] + (Cst(stk[-1][1], "dec"),)]
            return self.err()
        if w in ("?empty", "!empty"):
            if stk and sig[-1] in ("s", "q"):
                r = len(stk[-1][1]) == 0
                return [stk] if r == (w[0] == "?") else []
            return self.err()
        if w[1:] in ("find", "starts", "ends") and w[0] in "?!":
            if len(stk) >= 2 and sig[-2:] in (("s", "s"), ("q", "q")):
                hay, nee = stk[-2][1], stk[-1][1]
                if sig[-1] == "s":
                    r = {"find": nee in hay, "starts": hay.startswith(nee), "ends": hay.endswith(nee)}[w[1:]]
                else:
                    n, m = len(hay), len(nee)

                    def eqat(i):
                        return all(x[0] == y[0] and veq(x, y) for x, y in zip(hay[i:i + m], nee))
                    if w[1:] == "find":
                        r = any(eqat(i) for i in range(n - m + 1)) if m <= n else False
                    elif w[1:] == "starts":
                        r = m <= n and eqat(0)
                    else:
                        r = m <= n and eqat(n - m)
                return [stk] if r == (w[0] == "?") else []
            return self.err()
        if w in ("?match", "!match", "=~", "!~"):
            if len(stk) >= 2 and sig[-2:] == ("s", "s"):
                r = ere_search(stk[-1][1], stk[-2][1])
                if r is None:
                    return self.err()
                pos = w in ("?match", "=~")
                return [stk] if r == pos else []
            return self.err()
        raise Unjudged("word %s not modelled" % w)


_libc = None


def ere_search(pattern, hay):
    """POSIX ERE search via libc regcomp/regexec on NUL-terminated prefixes; None = regcomp error."""
    global _libc
    import ctypes
    if _libc is None:
        _libc = ctypes.CDLL("libc.so.6")
    buf = ctypes.create_string_buffer(256)     # regex_t
    pat = pattern.split(b"\0")[0]
    h = hay.split(b"\0")[0]
    if _libc.regcomp(buf, pat, 1 | 8) != 0:    # REG_EXTENDED | REG_NOSUB
        return None
    r = _libc.regexec(buf, h, 0, None, 0)
    _libc.regfree(buf)
    return r == 0


def set_type_codes(d):
    TYPE_CODES.clear()
    TYPE_CODES.update(d)


def run(node, stack=(), reach_cap=400, step_cap=20000):
    """Evaluate NODE on STACK.  Returns (list of canonical result stacks, Run)."""
    r = Run(reach_cap, step_cap)
    outs = r.ev(node, [(tuple(stack), {})])
    res = [canon_stack(s) for s, _ in outs]
    return res, r


def compare(got, exp, run, text=""):
    """'ok' | 'bad' | 'unjudged' for engine results GOT against model results EXP of Run RUN."""
    if run.wild:
        got, exp = [wild(x) for x in got], [wild(x) for x in exp]
    if not run.taint:
        return "ok" if got == exp else "bad"
    if sorted(got) == sorted(exp):
        return "ok"
    # an order the documentation leaves open was produced; it may have flowed into
    # positions (numbering follows the order) ...
    if sorted(wild(x) for x in got) == sorted(wild(x) for x in exp):
        return "ok"
    # ... or into captured sequences, where the model cannot follow it
    if "[" in text:
        return "unjudged"
    return "bad"


# --------------------------------------------------------------------------- token-level rendering and AST surgery
def render_tokens(n):
    """Token list whose blank-joined text parses to the same tree as render(n)."""
    t = n[0]

    def ids(i):
        return (["|"] + list(i) + ["|"]) if i else []
    if t == "cat":
        out = []
        for c in n[1]:
            out += render_tokens(c)
        return out
    if t in ("alt", "or"):
        out = ["("]
        for k, c in enumerate(n[1]):
            if k:
                out.append("," if t == "alt" else "||")
            out += render_tokens(c)
        return out + [")"]
    if t == "par":
        return ["("] + ids(n[1]) + render_tokens(n[2]) + [")"]
    if t == "cap":
        body = render_tokens(n[2])
        if not n[1] and not body:
            body = ["(", ")"]
        return ["["] + ids(n[1]) + body + ["]"]
    if t == "sub":
        return ["?(" if n[1] else "!("] + ids(n[2]) + render_tokens(n[3]) + [")"]
    if t == "infix":
        return ["("] + render_tokens(n[2]) + [n[1]] + render_tokens(n[3]) + [")"]
    if t == "let":
        return ["let"] + list(n[1]) + [":="] + render_tokens(n[2]) + [";"]
    if t == "if":
        return ["if", "("] + render_tokens(n[1]) + [")", "then", "("] + render_tokens(n[2]) + [")", "else", "("] + render_tokens(n[3]) + [")"]
    if t in ("star", "plus", "opt"):
        return ["("] + render_tokens(n[1]) + [")", {"star": "*", "plus": "+", "opt": "?"}[t]]
    if t == "block":
        return ["{"] + ids(n[1]) + render_tokens(n[2]) + ["}"]
    return [render(n)]


def children(n):
    """[(path, child)] for the direct sub-programs of n."""
    t = n[0]
    if t in ("cat", "alt", "or"):
        return [((1, i), c) for i, c in enumerate(n[1])]
    if t in ("par", "cap", "let", "block"):
        return [((2,), n[2])]
    if t == "sub":
        return [((3,), n[3])]
    if t == "infix":
        return [((2,), n[2]), ((3,), n[3])]
    if t == "if":
        return [((1,), n[1]), ((2,), n[2]), ((3,), n[3])]
    if t in ("star", "plus", "opt"):
        return [((1,), n[1])]
    if t == "fmt":
        return [((1, i, 1), p[1]) for i, p in enumerate(n[1]) if not isinstance(p, bytes) and p[0] == "splice"]
    if t == "raw":
        return []
    return []


def with_child(n, path, new):
    if len(path) == 1:
        return n[:path[0]] + (new,) + n[path[0] + 1:]
    if len(path) == 2:
        lst = list(n[path[0]])
        lst[path[1]] = new
        return n[:path[0]] + (lst,) + n[path[0] + 1:]
    lst = list(n[path[0]])
    part = lst[path[1]]
    lst[path[1]] = part[:path[2]] + (new,) + part[path[2] + 1:]
    return n[:path[0]] + (lst,) + n[path[0] + 1:]


def positions(n, prefix=()):
    """All (path-of-paths, node) in pre-order, root first."""
    yield prefix, n
    for p, c in children(n):
        for x in positions(c, prefix + (p,)):
            yield x


def replace_at(n, pp, new):
    if not pp:
        return new
    p = pp[0]
    child = dict(children(n))[p]
    return with_child(n, p, replace_at(child, pp[1:], new))
