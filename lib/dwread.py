"""dwread -- an independent reader for ELF64 little-endian files with DWARF 2..5 (no relocations applied).

    r = dwread.ElfReader('/path/file')
    r.e_type, r.e_machine, r.sections [RSection], r.section_data('.debug_info')
    r.units -> [RUnit]; RUnit.root / .dies (file order); RDie.attrs -> [RAttr]
    r.die_at(offset), r.abbrev_table(offset) -> [RAbbrev]
    r.decode_expr(data, unit) -> [(offset, opcode, (operands...))]
    r.loclist(offset, unit) / r.rangelist(offset, unit) -> RList (raw entries + resolved ranges)
    r.line_table(offset) -> RLineTable
    r.symbols('.symtab') -> [RSym] (entry 0 included)

RAttr.value: unsigned int for data1/2/4/8, udata, addr, flag, sec_offset and the index forms (strx*, addrx*,
loclistx, rnglistx: the raw index; see ElfReader.resolve_indexed); signed int for sdata and implicit_const;
bytes for string/strp/line_strp (looked up, without the NUL), block*/exprloc/data16; absolute .debug_info
offset for ref1/2/4/8/ref_udata/ref_addr; raw ints for ref_sig8, ref_sup*, strp_sup, GNU_*_alt; True for
flag_present.  RAttr.form is the actual form, RAttr.indirect tells the abbreviation said DW_FORM_indirect.
Only the numeric DW_*/ELF constants are shared with elfgen; no encoder of elfgen is used here.
"""
import struct
import zlib

import elfgen as _g

DW, ELF, dw_name = _g.DW, _g.ELF, _g.dw_name


class ReadError(Exception):
    pass


class Cursor:
    def __init__(self, data, pos=0, end=None):
        self.d, self.p, self.end = data, pos, len(data) if end is None else end

    def need(self, n):
        if self.p + n > self.end:
            raise ReadError('read past the end at 0x%x' % self.p)

    def u(self, n):
        self.need(n)
        v = int.from_bytes(self.d[self.p:self.p + n], 'little')
        self.p += n
        return v

    def s(self, n):
        v = self.u(n)
        return v - (1 << (8 * n)) if v >> (8 * n - 1) else v

    def uleb(self):
        v = shift = 0
        while True:
            self.need(1)
            b = self.d[self.p]
            self.p += 1
            v |= (b & 0x7f) << shift
            shift += 7
            if not b & 0x80:
                return v

    def sleb(self):
        v = shift = 0
        while True:
            self.need(1)
            b = self.d[self.p]
            self.p += 1
            v |= (b & 0x7f) << shift
            shift += 7
            if not b & 0x80:
                return v - (1 << shift) if b & 0x40 else v

    def bytes(self, n):
        self.need(n)
        v = self.d[self.p:self.p + n]
        self.p += n
        return bytes(v)

    def cstr(self):
        e = self.d.find(b'\0', self.p, self.end)
        if e < 0:
            raise ReadError('unterminated string at 0x%x' % self.p)
        v = bytes(self.d[self.p:e])
        self.p = e + 1
        return v

    def initial_length(self):
        """-> (length, offset_size)"""
        n = self.u(4)
        if n == 0xffffffff:
            return self.u(8), 8
        if n >= 0xfffffff0:
            raise ReadError('reserved initial length 0x%x' % n)
        return n, 4


class RSection:
    def __init__(self, index, name_off, typ, flags, addr, offset, size, link, info, addralign, entsize):
        self.index, self.name_off, self.type, self.flags, self.addr = index, name_off, typ, flags, addr
        self.offset, self.size, self.link, self.info, self.addralign, self.entsize = \
            offset, size, link, info, addralign, entsize
        self.name = None


class RSym:
    def __init__(self, index, name, name_off, value, size, info, other, shndx):
        self.index, self.name, self.name_off, self.value, self.size = index, name, name_off, value, size
        self.info, self.other, self.shndx = info, other, shndx
        self.type, self.bind, self.visibility = info & 15, info >> 4, other & 3


class RAbbrev:
    def __init__(self, code, tag, children, specs, offset, attr_offsets):
        self.code, self.tag, self.children, self.specs = code, tag, children, specs
        self.offset, self.attr_offsets = offset, attr_offsets


class RAttr:
    def __init__(self, name, form, indirect, value, offset):
        self.name, self.form, self.indirect, self.value, self.offset = name, form, indirect, value, offset

    def __repr__(self):
        return 'RAttr(%s, %s, %r)' % (dw_name('DW_AT', self.name, hex(self.name)),
                                      dw_name('DW_FORM', self.form, hex(self.form)), self.value)


class RDie:
    def __init__(self, offset, unit, parent, abbrev):
        self.offset, self.unit, self.parent, self.abbrev = offset, unit, parent, abbrev
        self.tag, self.has_children, self.abbrev_code = abbrev.tag, abbrev.children, abbrev.code
        self.attrs, self.children, self.end_offset = [], [], None

    def attr(self, name):
        name = _g.cst(name)
        for a in self.attrs:
            if a.name == name:
                return a
        return None

    def walk(self):
        stack = [self]
        while stack:
            d = stack.pop()
            yield d
            stack.extend(reversed(d.children))

    def __repr__(self):
        return 'RDie(%s @0x%x)' % (dw_name('DW_TAG', self.tag, hex(self.tag)), self.offset)


class RUnit:
    def __init__(self):
        self.offset = self.version = self.offset_size = self.address_size = self.unit_type = None
        self.abbrev_offset = self.next_offset = self.header_size = self.root = None
        self.type_signature = self.type_offset = self.dwo_id = None
        self.section = '.debug_info'
        self.dies = []


class RList:
    """entries: raw [(kind, operands..., expr bytes or None)] with kind as in elfgen.LocList (offsets and
    addresses as stored); ranges: [(low, high, expr bytes or None)] after applying base address rules (the
    x-forms are resolved through .debug_addr when the unit has DW_AT_addr_base, else skipped);
    expr_offsets: section offset of each entry's expression (None when it has none); end: offset past the list."""

    def __init__(self):
        self.entries, self.ranges, self.expr_offsets, self.offset, self.end = [], [], [], None, None


class RLineTable:
    def __init__(self):
        self.offset = self.version = self.offset_size = self.address_size = self.header_length = None
        self.dirs, self.files, self.opcode_base, self.std_lengths, self.program = [], [], None, [], b''
        self.next_offset = None


F = {n[8:]: v for n, v in _g.FAMILIES['DW_FORM'].items()}
OP = {n[6:]: v for n, v in _g.FAMILIES['DW_OP'].items()}


def _opkinds():
    t = {}

    def put(kinds, names):
        for n in names.split():
            if n in OP:
                t[OP[n]] = kinds
    put('A', 'addr')
    put('1', 'const1u pick deref_size xderef_size')
    put('a', 'const1s')
    put('2', 'const2u call2')
    put('b', 'const2s skip bra')
    put('4', 'const4u call4 GNU_parameter_ref')
    put('d', 'const4s')
    put('8', 'const8u')
    put('h', 'const8s')
    put('u', 'constu plus_uconst regx piece addrx constx GNU_addr_index GNU_const_index convert reinterpret '
        'GNU_convert GNU_reinterpret')
    put('s', 'consts fbreg')
    for i in range(32):
        t[OP['breg0'] + i] = 's'
    put('us', 'bregx')
    put('uu', 'bit_piece regval_type GNU_regval_type')
    put('B', 'implicit_value entry_value GNU_entry_value')
    put('R', 'call_ref GNU_variable_value')
    put('Rs', 'implicit_pointer GNU_implicit_pointer')
    put('uC', 'const_type GNU_const_type')
    put('1u', 'deref_type GNU_deref_type xderef_type')
    return t


_OPK = _opkinds()


def decode_expr(data, address_size=8, offset_size=4, version=4):
    """[(offset, opcode, (operands))].  Operands: ints (signed where the encoding is signed), DIE references as
    stored (unit-relative for call2/call4/convert/const_type/regval_type/deref_type/..., section offset for
    call_ref/implicit_pointer/GNU_variable_value), bytes for implicit_value blocks, const_type values and
    the nested expression of entry_value."""
    asz, osz, ver = address_size, offset_size, version
    c = Cursor(data)
    out = []
    while c.p < c.end:
        start = c.p
        opc = c.u(1)
        kinds = _OPK.get(opc, '')
        vals = []
        for k in kinds:
            if k == 'A':
                vals.append(c.u(asz))
            elif k in '1248':
                vals.append(c.u(int(k)))
            elif k in 'abdh':
                vals.append(c.s({'a': 1, 'b': 2, 'd': 4, 'h': 8}[k]))
            elif k == 'u':
                vals.append(c.uleb())
            elif k == 's':
                vals.append(c.sleb())
            elif k == 'B':
                vals.append(c.bytes(c.uleb()))
            elif k == 'C':
                vals.append(c.bytes(c.u(1)))
            elif k == 'R':
                vals.append(c.u(asz if ver == 2 else osz))
        out.append((start, opc, tuple(vals)))
    return out


class ElfReader:
    """src: path or bytes.  suffix='.dwo' reads the split-DWARF sections (.debug_info.dwo, ...) of a .dwo file
    under their plain names (sections without the suffix, e.g. .symtab, are still found)."""

    def __init__(self, src, suffix=''):
        self.suffix = suffix
        self.data = src if isinstance(src, (bytes, bytearray)) else open(src, 'rb').read()
        d = self.data
        if d[:4] != b'\x7fELF' or d[4] != 2 or d[5] != 1:
            raise ReadError('not an ELF64 little-endian file')
        self.ei_osabi = d[7]
        (self.e_type, self.e_machine, self.e_version, self.e_entry, self.e_phoff, self.e_shoff, self.e_flags,
         self.e_ehsize, self.e_phentsize, self.e_phnum, self.e_shentsize, self.e_shnum,
         self.e_shstrndx) = struct.unpack_from('<HHIQQQIHHHHHH', d, 16)
        self.sections = []
        shnum, shstrndx = self.e_shnum, self.e_shstrndx
        if self.e_shoff:
            first = struct.unpack_from('<IIQQQQIIQQ', d, self.e_shoff)
            if shnum == 0:
                shnum = first[5]
            if shstrndx == 0xffff:
                shstrndx = first[6]
            for i in range(shnum):
                self.sections.append(RSection(i, *struct.unpack_from('<IIQQQQIIQQ', d, self.e_shoff + i * self.e_shentsize)))
        self._cache = {}
        if self.sections and shstrndx < len(self.sections):
            tab = self._raw(self.sections[shstrndx])
            for s in self.sections:
                e = tab.find(b'\0', s.name_off)
                s.name = tab[s.name_off:e].decode('latin-1') if e >= 0 else ''
        self._abbrev_cache, self._units, self._die_index = {}, None, None

    # ---- sections --------------------------------------------------------
    def _raw(self, s):
        if s.type == 8:          # SHT_NOBITS
            return b''
        data = bytes(self.data[s.offset:s.offset + s.size])
        if s.flags & 0x800:      # SHF_COMPRESSED
            ch_type, _, ch_size, _ = struct.unpack_from('<IIQQ', data, 0)
            if ch_type != 1:
                raise ReadError('unsupported compression %d' % ch_type)
            data = zlib.decompress(data[24:])
        return data

    def section(self, name):
        for s in self.sections:
            if s.name == name:
                return s
        return None

    def section_data(self, name):
        if name not in self._cache:
            s = (self.section(name + self.suffix) if self.suffix else None) or self.section(name)
            self._cache[name] = self._raw(s) if s is not None else b''
        return self._cache[name]

    # ---- symbols ---------------------------------------------------------
    def symbols(self, name='.symtab'):
        sec = self.section(name)
        if sec is None:
            return []
        data = self._raw(sec)
        strs = self._raw(self.sections[sec.link]) if sec.link < len(self.sections) else b''
        out = []
        for i in range(len(data) // 24):
            st_name, info, other, shndx, value, size = struct.unpack_from('<IBBHQQ', data, i * 24)
            e = strs.find(b'\0', st_name)
            nm = strs[st_name:e] if 0 <= st_name < len(strs) and e >= 0 else b''
            out.append(RSym(i, nm, st_name, value, size, info, other, shndx))
        return out

    # ---- abbreviations ---------------------------------------------------
    def abbrev_table(self, offset):
        """The abbreviations of the table starting at OFFSET, in stored order."""
        if offset in self._abbrev_cache:
            return self._abbrev_cache[offset]
        c = Cursor(self.section_data('.debug_abbrev'), offset)
        out = []
        while True:
            start = c.p
            code = c.uleb()
            if code == 0:
                break
            tag = c.uleb()
            children = c.u(1)
            specs, offs = [], []
            while True:
                ao = c.p
                name, form = c.uleb(), c.uleb()
                imp = c.sleb() if form == F['implicit_const'] else None
                if name == 0 and form == 0:
                    break
                specs.append((name, form, imp))
                offs.append(ao)
            out.append(RAbbrev(code, tag, bool(children), specs, start, offs))
        self._abbrev_cache[offset] = out
        self._abbrev_cache[('end', offset)] = c.p
        return out

    def abbrev_table_end(self, offset):
        self.abbrev_table(offset)
        return self._abbrev_cache[('end', offset)]

    # ---- units and DIEs --------------------------------------------------
    @property
    def units(self):
        if self._units is None:
            self._units = self._read_units('.debug_info') + self._read_units('.debug_types')
        return self._units

    def _read_units(self, secname):
        data = self.section_data(secname)
        out = []
        pos = 0
        while pos < len(data):
            c = Cursor(data, pos)
            u = RUnit()
            u.section, u.offset = secname, pos
            length, u.offset_size = c.initial_length()
            u.next_offset = c.p + length
            if u.next_offset > len(data):
                raise ReadError('unit at 0x%x runs past the section' % pos)
            c.end = u.next_offset
            u.version = c.u(2)
            if not 2 <= u.version <= 5:
                raise ReadError('unit at 0x%x: version %d' % (pos, u.version))
            if u.version >= 5:
                u.unit_type, u.address_size = c.u(1), c.u(1)
                u.abbrev_offset = c.u(u.offset_size)
                if u.unit_type in (DW['DW_UT_type'], DW['DW_UT_split_type']):
                    u.type_signature, u.type_offset = c.u(8), c.u(u.offset_size)
                elif u.unit_type in (DW['DW_UT_skeleton'], DW['DW_UT_split_compile']):
                    u.dwo_id = c.u(8)
            else:
                u.abbrev_offset = c.u(u.offset_size)
                u.address_size = c.u(1)
                if secname == '.debug_types':
                    u.type_signature, u.type_offset = c.u(8), c.u(u.offset_size)
            u.header_size = c.p - pos
            self._read_dies(u, c)
            out.append(u)
            pos = u.next_offset
        return out

    def _read_dies(self, u, c):
        abbrevs = {a.code: a for a in reversed(self.abbrev_table(u.abbrev_offset))}   # first definition wins
        parent = None
        while c.p < c.end:
            off = c.p
            code = c.uleb()
            if code == 0:
                if parent is None:
                    if u.root is None:
                        raise ReadError('unit at 0x%x starts with a null entry' % u.offset)
                    continue            # padding after the root DIE
                parent.end_offset = c.p
                parent = parent.parent
                continue
            ab = abbrevs.get(code)
            if ab is None:
                raise ReadError('DIE 0x%x: no abbreviation %d' % (off, code))
            d = RDie(off, u, parent, ab)
            for name, form, imp in ab.specs:
                indirect = form == F['indirect']
                if indirect:
                    form = c.uleb()
                voff = c.p
                d.attrs.append(RAttr(name, form, indirect, self._value(c, form, imp, u), voff))
            u.dies.append(d)
            if parent is not None:
                parent.children.append(d)
            elif u.root is None:
                u.root = d
            else:
                raise ReadError('DIE 0x%x: second root in the unit at 0x%x' % (off, u.offset))
            if ab.children:
                parent = d
            else:
                d.end_offset = c.p
        while parent is not None:       # unit ended inside open children lists
            parent.end_offset = c.p
            parent = parent.parent

    def _value(self, c, form, imp, u):
        osz = u.offset_size
        if form == F['addr']:
            return c.u(u.address_size)
        if form in (F['data1'], F['flag'], F['strx1'], F['addrx1']):
            return c.u(1)
        if form in (F['data2'], F['strx2'], F['addrx2']):
            return c.u(2)
        if form in (F['strx3'], F['addrx3']):
            return c.u(3)
        if form in (F['data4'], F['strx4'], F['addrx4'], F['ref_sup4']):
            return c.u(4)
        if form in (F['data8'], F['ref_sig8'], F['ref_sup8']):
            return c.u(8)
        if form == F['data16']:
            return c.bytes(16)
        if form == F['sdata']:
            return c.sleb()
        if form in (F['udata'], F['strx'], F['addrx'], F['loclistx'], F['rnglistx'], F['GNU_addr_index'],
                    F['GNU_str_index']):
            return c.uleb()
        if form == F['string']:
            return c.cstr()
        if form == F['strp']:
            return self._str('.debug_str', c.u(osz))
        if form == F['line_strp']:
            return self._str('.debug_line_str', c.u(osz))
        if form in (F['sec_offset'], F['strp_sup'], F['GNU_ref_alt'], F['GNU_strp_alt']):
            return c.u(osz)
        if form == F['block1']:
            return c.bytes(c.u(1))
        if form == F['block2']:
            return c.bytes(c.u(2))
        if form == F['block4']:
            return c.bytes(c.u(4))
        if form in (F['block'], F['exprloc']):
            return c.bytes(c.uleb())
        if form == F['flag_present']:
            return True
        if form == F['implicit_const']:
            if imp is None:
                raise ReadError('DW_FORM_implicit_const without a value (indirect?)')
            return imp
        if form == F['ref1']:
            return u.offset + c.u(1)
        if form == F['ref2']:
            return u.offset + c.u(2)
        if form == F['ref4']:
            return u.offset + c.u(4)
        if form == F['ref8']:
            return u.offset + c.u(8)
        if form == F['ref_udata']:
            return u.offset + c.uleb()
        if form == F['ref_addr']:
            return c.u(u.address_size if u.version == 2 else osz)
        raise ReadError('unknown form 0x%x at 0x%x' % (form, c.p))

    def _str(self, sec, off):
        data = self.section_data(sec)
        e = data.find(b'\0', off)
        if off >= len(data) or e < 0:
            raise ReadError('string offset 0x%x outside %s' % (off, sec))
        return bytes(data[off:e])

    def die_at(self, offset, section='.debug_info'):
        if self._die_index is None:
            self._die_index = {(u.section, d.offset): d for u in self.units for d in u.dies}
        return self._die_index.get((section, offset))

    def all_dies(self):
        for u in self.units:
            yield from u.dies

    # ---- indexed forms (DWARF 5) -----------------------------------------
    def resolve_indexed(self, attr, unit):
        """strx* -> bytes, addrx* -> address, loclistx/rnglistx -> section offset of the list; None when
        the needed base attribute or section is missing."""
        f = attr.form
        root = unit.root

        def base(name, default):
            a = root.attr(name) if root is not None else None
            return a.value if a is not None else default
        osz = unit.offset_size
        hdr = 8 if osz == 4 else 16
        try:
            if f in (F['strx'], F['strx1'], F['strx2'], F['strx3'], F['strx4'], F['GNU_str_index']):
                b = base('DW_AT_str_offsets_base', hdr if unit.version >= 5 else 0)
                c = Cursor(self.section_data('.debug_str_offsets'), b + attr.value * osz)
                return self._str('.debug_str', c.u(osz))
            if f in (F['addrx'], F['addrx1'], F['addrx2'], F['addrx3'], F['addrx4'], F['GNU_addr_index']):
                return self._addrx(attr.value, unit)
            if f in (F['loclistx'], F['rnglistx']):
                sec, at = (('.debug_loclists', 'DW_AT_loclists_base') if f == F['loclistx']
                           else ('.debug_rnglists', 'DW_AT_rnglists_base'))
                b = base(at, None)
                if b is None and self.suffix:        # .dwo: the offset table of the (only) contribution
                    b = 12 if osz == 4 else 20
                if b is None:
                    return None
                return b + Cursor(self.section_data(sec), b + attr.value * osz).u(osz)
        except ReadError:
            return None
        return None

    def _addrx(self, idx, unit):
        a = unit.root.attr('DW_AT_addr_base') if unit.root is not None else None
        if a is None and 'DW_AT_GNU_addr_base' in DW and unit.root is not None:
            a = unit.root.attr('DW_AT_GNU_addr_base')
        if a is None:
            return None
        try:
            return Cursor(self.section_data('.debug_addr'), a.value + idx * unit.address_size).u(unit.address_size)
        except ReadError:
            return None

    # ---- expressions -----------------------------------------------------
    def decode_expr(self, data, unit=None, address_size=None, offset_size=None, version=None):
        """decode_expr() with the sizes of UNIT."""
        return decode_expr(data, address_size if address_size is not None else unit.address_size,
                           offset_size if offset_size is not None else unit.offset_size,
                           version if version is not None else unit.version)

    # ---- location and range lists ----------------------------------------
    def loclist(self, offset, unit, base=None):
        return self._list(offset, unit, True, base)

    def rangelist(self, offset, unit, base=None):
        return self._list(offset, unit, False, base)

    def unit_base(self, unit):
        """The unit base address: DW_AT_low_pc, else DW_AT_entry_pc of the root, else 0."""
        for n in ('DW_AT_low_pc', 'DW_AT_entry_pc'):
            a = unit.root.attr(n) if unit.root is not None else None
            if a is not None and isinstance(a.value, int):
                if a.form == F['addr']:
                    return a.value
                r = self.resolve_indexed(a, unit)
                if r is not None:
                    return r
        return 0

    def _list(self, offset, unit, loc, base):
        if base is None:
            base = self.unit_base(unit)
        asz = unit.address_size
        r = RList()
        r.offset = offset
        new = unit.version >= 5
        sec = (('.debug_loclists' if new else '.debug_loc') if loc else ('.debug_rnglists' if new else '.debug_ranges'))
        c = Cursor(self.section_data(sec), offset)
        ones = (1 << (8 * asz)) - 1

        def expr(lenbytes):
            if not loc:
                r.expr_offsets.append(None)
                return None
            n = c.uleb() if lenbytes == 0 else c.u(lenbytes)
            r.expr_offsets.append(c.p)
            return c.bytes(n)
        if not new:
            while True:
                b, e = c.u(asz), c.u(asz)
                if b == 0 and e == 0:
                    break
                if b == ones:
                    r.entries.append(('base', e))
                    r.expr_offsets.append(None)
                    base = e
                    continue
                x = expr(2)
                r.entries.append(('pair', b, e, x))
                r.ranges.append((base + b, base + e, x))
            r.end = c.p
            return self._trim(r, loc)
        L = {n.split('_', 2)[2]: v for n, v in _g.FAMILIES['DW_LLE' if loc else 'DW_RLE'].items() if 'GNU' not in n}
        while True:
            k = c.u(1)
            if k == L['end_of_list']:
                break
            if k == L['offset_pair']:
                b, e = c.uleb(), c.uleb()
                x = expr(0)
                r.entries.append(('pair', b, e, x))
                r.ranges.append((base + b, base + e, x))
            elif k == L['base_address']:
                base = c.u(asz)
                r.entries.append(('base', base))
                r.expr_offsets.append(None)
            elif k == L['start_end']:
                b, e = c.u(asz), c.u(asz)
                x = expr(0)
                r.entries.append(('start_end', b, e, x))
                r.ranges.append((b, e, x))
            elif k == L['start_length']:
                b, n = c.u(asz), c.uleb()
                x = expr(0)
                r.entries.append(('start_length', b, n, x))
                r.ranges.append((b, b + n, x))
            elif loc and k == L['default_location']:
                x = expr(0)
                r.entries.append(('default', x))
                r.ranges.append((0, (1 << 64) - 1, x))
            elif k == L['base_addressx']:
                i = c.uleb()
                r.entries.append(('base_addressx', i))
                r.expr_offsets.append(None)
                a = self._addrx(i, unit)
                base = a if a is not None else base
            elif k == L['startx_endx']:
                i, j = c.uleb(), c.uleb()
                x = expr(0)
                r.entries.append(('startx_endx', i, j, x))
                a, b = self._addrx(i, unit), self._addrx(j, unit)
                if a is not None and b is not None:
                    r.ranges.append((a, b, x))
            elif k == L['startx_length']:
                i, n = c.uleb(), c.uleb()
                x = expr(0)
                r.entries.append(('startx_length', i, n, x))
                a = self._addrx(i, unit)
                if a is not None:
                    r.ranges.append((a, a + n, x))
            else:
                raise ReadError('%s: unknown entry kind 0x%x at 0x%x' % (sec, k, c.p - 1))
        r.end = c.p
        return self._trim(r, loc)

    @staticmethod
    def _trim(r, loc):
        if not loc:                 # range lists carry no expressions
            r.entries = [e[:-1] if e[0] not in ('base', 'base_addressx') else e for e in r.entries]
            r.ranges = [x[:2] for x in r.ranges]
        return r

    def list_headers(self, sec):
        """Headers of .debug_loclists / .debug_rnglists: [(offset, unit_length, offset_size, version, address_size,
        segment_selector_size, offset_entry_count, first_list_offset, next_offset)]."""
        data = self.section_data(sec)
        out, pos = [], 0
        while pos < len(data):
            c = Cursor(data, pos)
            n, osz = c.initial_length()
            end = c.p + n
            ver, asz, ssz, cnt = c.u(2), c.u(1), c.u(1), c.u(4)
            out.append((pos, n, osz, ver, asz, ssz, cnt, c.p + cnt * osz, end))
            pos = end
        return out

    # ---- line tables -----------------------------------------------------
    def line_table(self, offset):
        """Header of the .debug_line contribution at OFFSET.  dirs: [bytes]; files: [(name, dir_index, mtime,
        length)] exactly as stored (versions 2-4: directories numbered from 1, files from 1; version 5: from 0)."""
        c = Cursor(self.section_data('.debug_line'), offset)
        t = RLineTable()
        t.offset = offset
        n, t.offset_size = c.initial_length()
        t.next_offset = c.end = c.p + n
        t.version = c.u(2)
        if not 2 <= t.version <= 5:
            raise ReadError('line table version %d' % t.version)
        if t.version >= 5:
            t.address_size, _seg = c.u(1), c.u(1)
        t.header_length = c.u(t.offset_size)
        prog = c.p + t.header_length
        t.min_inst_length = c.u(1)
        t.max_ops = c.u(1) if t.version >= 4 else 1
        t.default_is_stmt, t.line_base, t.line_range, t.opcode_base = c.u(1), c.s(1), c.u(1), c.u(1)
        t.std_lengths = [c.u(1) for _ in range(t.opcode_base - 1)]
        if t.version < 5:
            while True:
                s = c.cstr()
                if not s:
                    break
                t.dirs.append(s)
            while True:
                s = c.cstr()
                if not s:
                    break
                t.files.append((s, c.uleb(), c.uleb(), c.uleb()))
        else:
            for table in (t.dirs, t.files):
                fmt = [(c.uleb(), c.uleb()) for _ in range(c.u(1))]
                for _ in range(c.uleb()):
                    ent = {}
                    for ct, form in fmt:
                        ent[ct] = self._line_form(c, form, t)
                    if table is t.dirs:
                        table.append(ent.get(DW['DW_LNCT_path'], b''))
                    else:
                        table.append((ent.get(DW['DW_LNCT_path'], b''), ent.get(DW['DW_LNCT_directory_index'], 0),
                                      ent.get(DW['DW_LNCT_timestamp'], 0), ent.get(DW['DW_LNCT_size'], 0)))
        t.program = bytes(c.d[prog:t.next_offset])
        return t

    def _line_form(self, c, form, t):
        if form == F['string']:
            return c.cstr()
        if form == F['line_strp']:
            return self._str('.debug_line_str', c.u(t.offset_size))
        if form == F['strp']:
            return self._str('.debug_str', c.u(t.offset_size))
        if form == F['udata']:
            return c.uleb()
        if form in (F['data1'], F['data2'], F['data4'], F['data8']):
            return c.u({F['data1']: 1, F['data2']: 2, F['data4']: 4, F['data8']: 8}[form])
        if form == F['data16']:
            return c.bytes(16)
        if form == F['block']:
            return c.bytes(c.uleb())
        raise ReadError('line table: unsupported form 0x%x' % form)

    def file_path(self, table, index, comp_dir=b''):
        """Path of file INDEX the way libdw builds it (see elfgen.LineTable.path)."""
        if table.version < 5:
            if index == 0:
                return b'???'
            if index < 0 or index > len(table.files):
                return None
            name, di = table.files[index - 1][:2]
            d = comp_dir if di == 0 else (table.dirs[di - 1] if di <= len(table.dirs) else b'')
        else:
            if index < 0 or index >= len(table.files):
                return None
            name, di = table.files[index][:2]
            d = table.dirs[di] if di < len(table.dirs) else b''
        return name if name.startswith(b'/') or not d else d + b'/' + name
