"""Shared machinery for the DWARF checks: shape enumeration, file generation,
running a battery of pre-compiled queries on a generated file and comparing
with expectations computed from the generator's own model."""
import itertools, os
import elfgen as g
import drv, dwmodel

A, D = g.Attr, g.Die
DWDIR = os.path.join(os.path.dirname(os.path.dirname(os.path.abspath(__file__))), ".build", "dw")


def trees(k):
    """All ordered rooted trees with k nodes, as nested tuples of children."""
    if k == 1:
        return [()]
    out = []
    for f in forests(k - 1):
        out.append(tuple(f))
    return out


_forest_memo = {}


def forests(n):
    """All ordered forests with n nodes (lists of trees)."""
    if n == 0:
        return [[]]
    if n in _forest_memo:
        return _forest_memo[n]
    out = []
    for first in range(1, n + 1):
        for t in trees(first):
            for rest in forests(n - first):
                out.append([t] + rest)
    _forest_memo[n] = out
    return out


def unit_shapes(n, maxunits=3):
    """All ways to put n DIEs into 1..maxunits units, each unit one rooted tree."""
    out = []
    for k in range(1, min(maxunits, n) + 1):
        for comp in compositions(n, k):
            for combo in itertools.product(*[trees(c) for c in comp]):
                out.append(list(combo))
    return out


def compositions(n, k):
    if k == 1:
        return [(n,)]
    out = []
    for first in range(1, n - k + 2):
        for rest in compositions(n - first, k - 1):
            out.append((first,) + rest)
    return out


def leaves(tree, path=()):
    if not tree:
        return [path]
    out = []
    for i, c in enumerate(tree):
        out += leaves(c, path + (i,))
    return out


TAGS = ["DW_TAG_variable", "DW_TAG_subprogram", "DW_TAG_lexical_block", "DW_TAG_namespace", "DW_TAG_typedef", "DW_TAG_base_type",
        "DW_TAG_structure_type", "DW_TAG_member"]


def attr_menu(version, osz):
    m = [("DW_AT_name", "DW_FORM_string", b"nm"), ("DW_AT_name", "DW_FORM_strp", b"pooled"), ("DW_AT_byte_size", "DW_FORM_data1", 4),
         ("DW_AT_decl_line", "DW_FORM_data2", 300), ("DW_AT_bit_size", "DW_FORM_data4", 70000), ("DW_AT_const_value", "DW_FORM_data8", 1 << 40),
         ("DW_AT_const_value", "DW_FORM_sdata", -5), ("DW_AT_upper_bound", "DW_FORM_udata", 1000), ("DW_AT_external", "DW_FORM_flag", 1),
         ("DW_AT_low_pc", "DW_FORM_addr", 0x1000), ("DW_AT_data_member_location", "DW_FORM_block1", [("DW_OP_plus_uconst", 8)]),
         ("DW_AT_artificial", "DW_FORM_flag", 0), ("DW_AT_lo_user", "DW_FORM_block2", b"\x01\x02")]
    if version >= 4:
        m += [("DW_AT_declaration", "DW_FORM_flag_present", None), ("DW_AT_location", "DW_FORM_exprloc", [("DW_OP_addr", 0x10)])]
    if version >= 5:
        m += [("DW_AT_alignment", "DW_FORM_implicit_const", 16)]
    return m


def build_unit(tree, version, osz, k, leaf_flags, with_sibling, name, tag="DW_TAG_compile_unit", counter=None):
    """Unit from a shape; k seeds the rotation of tags/attributes; leaf_flags = set of leaf paths that carry
    the children flag with an immediate null."""
    menu = attr_menu(version, osz)
    cnt = counter if counter is not None else [k]

    def mk(t, path):
        i = cnt[0]
        cnt[0] += 1
        nat = i % 4
        attrs = [A(*menu[(i * 3 + j * 5) % len(menu)]) for j in range(nat)]
        kids = [mk(c, path + (j,)) for j, c in enumerate(t)]
        flag = True if (not t and path in leaf_flags) else None
        d = D(TAGS[i % len(TAGS)], attrs, kids, children_flag=flag)
        if with_sibling and t:
            d.attrs.append(A("DW_AT_sibling", "DW_FORM_ref4", g.End(d)))
        return d

    kids = [mk(c, (j,)) for j, c in enumerate(tree)]
    rflag = True if (not tree and () in leaf_flags) else None
    root = g.cu_root(name, version=version, offset_size=osz, children=kids, tag=tag)
    if rflag:
        root.children_flag = True
    return g.Unit(root, version, osz)


class Battery:
    """qid -> (query, prefix or None); compiled once per driver (replayed after a restart)."""

    def __init__(self, items):
        self.items = items

    def install(self, d):
        if getattr(d, "_battery", None) is self:
            return
        for qid, (q, p) in self.items.items():
            r = d.setup("qparse id=%s q=%s" % (qid, drv.hx(q)))
            if not r.lines or r.lines[0] != "ok":
                raise RuntimeError("battery query %s does not compile: %r" % (q, r.lines))
            if p is not None:
                r = d.setup("qparse id=%s_p q=%s" % (qid, drv.hx(p)))
                if not r.lines or r.lines[0] != "ok":
                    raise RuntimeError("battery prefix %s does not compile: %r" % (p, r.lines))
        d._battery = self

    def cmds(self, init="d1", lim=4000):
        out = []
        for qid, (q, p) in self.items.items():
            c = "qrun q=%s i=%s lim=%d" % (qid, init, lim)
            if p is not None:
                c += " p=%s_p" % qid
            out.append(c)
        return out


def parse_groups(resp):
    gs = []
    for l in resp.lines:
        if l.startswith("g "):
            gs.append((l[2:], []))
        elif l.startswith("r ") and gs:
            gs[-1][1].append(l[2:])
        elif gs:
            gs[-1][1].append("!" + l)
        else:
            gs.append((None, ["!" + l]))
    return gs


def run_file(d, battery, elf, path, expected, files=None):
    """Write ELF, open it, run the battery, compare.  expected: qid -> list (no prefix) or list of (input, [results]).
    Returns (n_queries, n_results, [(qid, description)])."""
    elf.write(path)
    battery.install(d)
    opens = ["open id=d1 path=" + drv.hx(path)]
    rs = d.batch(opens + battery.cmds() + ["close id=d1"])
    bad, nres = [], 0
    if rs[0].crash or not rs[0].lines or not rs[0].lines[0].startswith("ok"):
        return 0, 0, [("open", "cannot open generated file: %r %r" % (rs[0].lines, rs[0].crash))]
    for (qid, (q, p)), r in zip(battery.items.items(), rs[1:-1]):
        if qid not in expected:
            continue
        exp = expected[qid]
        if r.crash:
            bad.append((qid, "`%s%s` died: %s %s" % ((p + " | ") if p else "", q, r.crash[0], r.crash[1][-500:])))
            # after a restart the file is not open any more
            d.batch(opens)
            continue
        if p is None:
            got = [l[2:] if l.startswith("r ") else "!" + l for l in r.lines]
            nres += len(got)
            if got != exp:
                bad.append((qid, "`%s` yields %s, stored data says %s" % (q, summarize(got, exp), "")))
        else:
            got = parse_groups(r)
            nres += sum(len(x[1]) for x in got)
            if got != exp:
                bad.append((qid, "`%s` on each result of `%s`: %s" % (q, p, summarize_groups(got, exp))))
        if r.stderr and qid not in expected.get("_stderr_ok", ()):
            bad.append((qid + ":stderr", "`%s` printed diagnostics on a well-formed file: %r" % (q, r.stderr[:200])))
    return len(battery.items), nres, bad


def summarize(got, exp):
    for i, (a, b) in enumerate(itertools.zip_longest(got, exp)):
        if a != b:
            return "result #%d is %s, expected %s (got %d results, expected %d)" % (i, a, b, len(got), len(exp))
    return "same"


def summarize_groups(got, exp):
    if len(got) != len(exp):
        return "%d inputs seen, expected %d" % (len(got), len(exp))
    for (gi, gr), (ei, er) in zip(got, exp):
        if gi != ei:
            return "input %s, expected input %s" % (gi, ei)
        if gr != er:
            return "for input %s: %s" % (gi, summarize(gr, er))
    return "same"
