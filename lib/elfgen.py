"""elfgen -- write ELF64 little-endian files with hand-made DWARF 2..5 and symbol
tables from an in-memory model.  After ElfFile.write()/tobytes() every offset field
of the model is filled in, so the model is the ground truth for what was written.

Quick tour
    d = Die('DW_TAG_variable', [Attr('DW_AT_name', 'DW_FORM_string', b'x')])
    cu = Unit(Die('DW_TAG_compile_unit', [], [d]), version=4)
    ElfFile([cu], [Sym(b'foo', 0x10, 4, type=2, bind=1)]).write('/tmp/x.o')
    d.offset, cu.offset, cu.abbrev_table.abbrevs[0].offset ...

Constants come from /usr/include/dwarf.h and /usr/include/elf.h:
    DW['DW_AT_name'], DW_AT['DW_AT_name'], ELF['EM_X86_64'], dw_name('DW_TAG', 0x11)
Wherever the model takes a DW_* number it also takes the full name as a str.

Notes for callers
  * Attribute values (Attr.value) by form:
      int    addr data1/2/4/8 sdata udata flag sec_offset implicit_const ref_sig8,
             strx*/addrx*/loclistx/rnglistx (raw index, nothing else is generated),
             also any reference form (raw: unit relative for ref1/2/4/8/ref_udata,
             absolute for ref_addr) and strp/line_strp (raw section offset)
      bytes  string strp line_strp (NUL free), block* exprloc (already encoded), data16
      list   block* exprloc: [(opcode, operand...)...] encoded by encode_ops
      Die    ref1 ref2 ref4 ref8 ref_udata (same unit only), ref_addr (any unit);
             End(die) instead of a Die refers to the offset just past die's subtree
             (what gcc puts in DW_AT_sibling)
      LocList / RangeList / LineTable   sec_offset, data4, data8 (or any integer
             form): the object is placed into its section when first met, the value
             is its section offset
      None/True  flag_present
  * Location lists in .debug_loc and DW_LLE_offset_pair entries are relative to the
    unit base address; give the unit root DW_AT_low_pc 0 (libdw also assumes 0 when
    the root has neither low_pc nor entry_pc).  That is the caller's business.
  * Line tables are written verbatim: in versions 2-4 directory 0 is the compilation
    directory (not stored) and files are numbered from 1; in version 5 both tables
    are 0-based and entry 0 should be the comp dir / primary file.  libdw wants the
    root DIE to have DW_AT_stmt_list (and DW_AT_comp_dir, DW_AT_name are customary).
  * The generator does not check that a form is allowed in a DWARF version
    (FORMS_BY_VERSION tells); it encodes whatever it is told to.
"""
import re
import struct

# --------------------------------------------------------------------------
# constants
# --------------------------------------------------------------------------


def _parse_header(path, name_re):
    txt = open(path, errors='replace').read()
    txt = re.sub(r'/\*.*?\*/', ' ', txt, flags=re.S)
    txt = re.sub(r'//[^\n]*', ' ', txt)
    txt = txt.replace('\\\n', ' ')
    out, pending = {}, []
    for line in txt.splitlines():
        m = (re.match(r'\s*#\s*define\s+(\w+)\s+(\S.*?)\s*$', line)
             or re.match(r'\s*(\w+)\s*=\s*([^,]+?)\s*,?\s*$', line))
        if m and name_re.match(m.group(1)):
            pending.append(m.groups())

    def ev(s):
        s = re.sub(r'\b(0[xX][0-9a-fA-F]+|\d+)[uUlL]*\b', r'\1', s)
        s = re.sub(r'\b[A-Za-z_]\w*\b', lambda mm: str(out[mm.group(0)]), s)
        if not re.fullmatch(r'[0-9a-fA-FxX\s()<>|+\-~*&]+', s):
            raise ValueError(s)
        s = re.sub(r'\b0+(\d)', r'\1', s)       # C octal -> decimal is wrong, but only "0N" small values occur
        return int(eval(s, {'__builtins__': {}}, {}))

    for _ in range(4):                           # a few rounds resolve aliases defined out of order
        rest = []
        for name, val in pending:
            try:
                out.setdefault(name, ev(val))
            except (KeyError, ValueError, SyntaxError, TypeError):
                rest.append((name, val))
        pending = rest
    return out


DW = _parse_header('/usr/include/dwarf.h', re.compile(r'DW_[A-Z]+'))
ELF = _parse_header('/usr/include/elf.h', re.compile(r'[A-Z][A-Z0-9]*_\w+$'))

FAMILIES = {}
for _n, _v in DW.items():
    FAMILIES.setdefault('_'.join(_n.split('_')[:2]), {})[_n] = _v
for _n, _v in ELF.items():
    FAMILIES.setdefault(_n.split('_')[0], {})[_n] = _v
for _f in [f for f in FAMILIES if f.startswith('DW_')]:
    globals()[_f] = FAMILIES[_f]          # DW_TAG, DW_AT, DW_FORM, DW_OP, DW_ATE, DW_LANG, DW_UT, DW_LLE, ...
_REV = {}


def dw_name(family, value, default=None):
    """Name of VALUE in FAMILY ('DW_TAG', 'DW_AT', 'STT', 'EM', ...); first definition wins."""
    rev = _REV.get(family)
    if rev is None:
        rev = _REV[family] = {}
        for n, v in FAMILIES.get(family, {}).items():
            rev.setdefault(v, n)
    return rev.get(value, default)


def cst(x):
    """int -> int; 'DW_AT_name' / 'EM_X86_64' -> its value."""
    if isinstance(x, str):
        return DW[x] if x in DW else ELF[x]
    return x


F = DW_FORM = FAMILIES['DW_FORM']
_f = lambda n: DW['DW_FORM_' + n]
_V2 = {_f(n) for n in ('addr block2 block4 data2 data4 data8 string block block1 data1 flag sdata strp '
                       'udata ref_addr ref1 ref2 ref4 ref8 ref_udata indirect').split()}
_V4 = _V2 | {_f(n) for n in 'sec_offset exprloc flag_present ref_sig8'.split()}
_V5 = _V4 | {_f(n) for n in ('strx addrx ref_sup4 strp_sup data16 line_strp implicit_const loclistx rnglistx '
                             'ref_sup8 strx1 strx2 strx3 strx4 addrx1 addrx2 addrx3 addrx4').split()}
FORMS_BY_VERSION = {2: _V2, 3: _V2, 4: _V4, 5: _V5}

_FIXED = {_f('data1'): 1, _f('data2'): 2, _f('data4'): 4, _f('data8'): 8, _f('flag'): 1, _f('ref_sig8'): 8,
          _f('strx1'): 1, _f('strx2'): 2, _f('strx3'): 3, _f('strx4'): 4, _f('addrx1'): 1, _f('addrx2'): 2,
          _f('addrx3'): 3, _f('addrx4'): 4, _f('ref_sup4'): 4, _f('ref_sup8'): 8}
_OFFSZ = {_f('sec_offset'), _f('strp_sup'), _f('GNU_ref_alt'), _f('GNU_strp_alt')}
_ULEB = {_f('udata'), _f('strx'), _f('addrx'), _f('loclistx'), _f('rnglistx'), _f('GNU_addr_index'),
         _f('GNU_str_index')}
_REFN = {_f('ref1'): 1, _f('ref2'): 2, _f('ref4'): 4, _f('ref8'): 8}
_BLOCKN = {_f('block1'): 1, _f('block2'): 2, _f('block4'): 4}

# --------------------------------------------------------------------------
# primitive encoders
# --------------------------------------------------------------------------


def uleb(v):
    if v < 0:
        raise ValueError('uleb of negative %d' % v)
    out = bytearray()
    while True:
        b = v & 0x7f
        v >>= 7
        if v:
            out.append(b | 0x80)
        else:
            out.append(b)
            return bytes(out)


def sleb(v):
    out = bytearray()
    while True:
        b = v & 0x7f
        v >>= 7
        if (v == 0 and not b & 0x40) or (v == -1 and b & 0x40):
            out.append(b)
            return bytes(out)
        out.append(b | 0x80)


def uint(v, size):
    """V as SIZE little-endian bytes; negative values are taken modulo 2**(8*size)."""
    if not -(1 << (8 * size - 1)) <= v < (1 << (8 * size)):
        raise ValueError('%d does not fit %d bytes' % (v, size))
    return (v & ((1 << (8 * size)) - 1)).to_bytes(size, 'little')


# --------------------------------------------------------------------------
# model
# --------------------------------------------------------------------------


class Attr:
    """One attribute.  After layout: .offset (of the value in .debug_info), .encoded (its bytes),
    .resolved (what a reader decodes: unsigned int for data*/udata/addr/flag/sec_offset, signed for
    sdata/implicit_const, bytes for strings/blocks/data16, absolute .debug_info offset for references,
    True for flag_present)."""

    def __init__(self, name, form, value=None, indirect=False):
        self.name, self.form, self.value, self.indirect = cst(name), cst(form), value, indirect
        self.offset = self.encoded = self.resolved = None

    def __repr__(self):
        return 'Attr(%s, %s, %r%s)' % (dw_name('DW_AT', self.name, hex(self.name)),
                                       dw_name('DW_FORM', self.form, hex(self.form)), self.value,
                                       ', indirect' if self.indirect else '')


class End:
    """Reference target "the offset just past DIE's subtree" (next sibling or the parent's null entry)."""

    def __init__(self, die):
        self.die = die


class Die:
    """children_flag: None = abbreviation says has-children iff there are children; True with no children
    = flag set and a null entry follows immediately; False with children raises at layout.
    After layout: .offset, .end_offset (just past the subtree incl. its terminating null), .unit, .parent,
    .abbrev (Abbrev), .abbrev_code, .has_children (the flag as written)."""

    def __init__(self, tag, attrs=None, children=None, children_flag=None):
        self.tag = cst(tag)
        self.attrs = list(attrs or [])
        self.children = list(children or [])
        self.children_flag = children_flag
        self.offset = self.end_offset = self.unit = self.parent = self.abbrev = self.abbrev_code = None
        self.has_children = None

    def attr(self, name):
        name = cst(name)
        for a in self.attrs:
            if a.name == name:
                return a
        return None

    def walk(self):
        """This DIE and all descendants in file (pre-)order."""
        stack = [self]
        while stack:
            d = stack.pop()
            yield d
            stack.extend(reversed(d.children))

    def __repr__(self):
        return 'Die(%s @%s)' % (dw_name('DW_TAG', self.tag, hex(self.tag)),
                                '?' if self.offset is None else hex(self.offset))


class Abbrev:
    """code, tag, children (bool), specs [(name, form, implicit_const value or None)]; after layout
    .offset (of the code in .debug_abbrev) and .attr_offsets (of each attribute spec, same length as specs)."""

    def __init__(self, code, tag, children, specs):
        self.code, self.tag, self.children, self.specs = code, tag, children, specs
        self.offset, self.attr_offsets = None, []

    @property
    def libdw_attr_offsets(self):
        """What libdw's dwarf_getabbrevattr (and dwgrep's `abbrev attribute offset`) report: the abbreviation's
        offset plus the distance from its FIRST attribute spec, i.e. short by the size of (code, tag, children)."""
        return [self.offset + o - self.attr_offsets[0] for o in self.attr_offsets]


class AbbrevTable:
    """One abbreviation table (a contiguous, 0-terminated run in .debug_abbrev).  Give the same object to
    several Units to make them share it.  share=False: a fresh abbreviation for every DIE.  Codes are
    first_code, first_code+step, ... in first-use order.  After layout: .offset, .abbrevs, .size."""

    def __init__(self, share=True, first_code=1, step=1):
        self.share, self.first_code, self.step = share, first_code, step
        self._reset()

    def _reset(self):
        self.abbrevs, self._index, self.offset, self.size = [], {}, None, None

    def _get(self, key):
        ab = self._index.get(key) if self.share else None
        if ab is None:
            ab = Abbrev(self.first_code + self.step * len(self.abbrevs), key[0], key[1], list(key[2]))
            self.abbrevs.append(ab)
            self._index[key] = ab
        return ab

    def _encode(self, base):
        out = bytearray()
        for ab in self.abbrevs:
            ab.offset = base + len(out)
            out += uleb(ab.code) + uleb(ab.tag) + bytes([1 if ab.children else 0])
            ab.attr_offsets = []
            for name, form, imp in ab.specs:
                ab.attr_offsets.append(base + len(out))
                out += uleb(name) + uleb(form)
                if form == F['DW_FORM_implicit_const']:
                    out += sleb(imp)
            out += b'\0\0'
        out += b'\0'
        self.offset, self.size = base, len(out)
        return bytes(out)


class Unit:
    """A unit of .debug_info.  unit_type (v5 only) defaults from the root tag (partial_unit -> DW_UT_partial,
    type_unit -> DW_UT_type, skeleton_unit -> DW_UT_skeleton, else DW_UT_compile); type units take
    type_signature and type_die (a Die of the unit, or raw unit-relative int), skeleton/split units dwo_id.
    abbrev_table None = a private AbbrevTable is created.
    After layout: .offset, .header_size, .abbrev_offset, .next_offset, .dies (all DIEs in file order)."""

    def __init__(self, root, version=4, offset_size=4, address_size=8, unit_type=None, abbrev_table=None,
                 type_signature=0, type_die=0, dwo_id=0):
        self.root, self.version, self.offset_size, self.address_size = root, version, offset_size, address_size
        self.unit_type = cst(unit_type)
        self.abbrev_table = abbrev_table if abbrev_table is not None else AbbrevTable()
        self.type_signature, self.type_die, self.dwo_id = type_signature, type_die, dwo_id
        self.offset = self.header_size = self.abbrev_offset = self.next_offset = None
        self.dies = []

    def effective_unit_type(self):
        if self.unit_type is not None:
            return self.unit_type
        return {DW.get('DW_TAG_partial_unit'): DW['DW_UT_partial'], DW.get('DW_TAG_type_unit'): DW['DW_UT_type'],
                DW.get('DW_TAG_skeleton_unit'): DW['DW_UT_skeleton']}.get(self.root.tag, DW['DW_UT_compile'])


def secptr_form(version, offset_size=4):
    """The form a section offset (DW_AT_stmt_list, location/range list pointers) takes in VERSION:
    DW_FORM_sec_offset from DWARF 4 on, DW_FORM_data4 / DW_FORM_data8 before."""
    return F['DW_FORM_sec_offset'] if version >= 4 else F['DW_FORM_data4' if offset_size == 4 else 'DW_FORM_data8']


def cu_root(name=b'a.c', comp_dir=b'/src', version=4, offset_size=4, low_pc=0, line_table=None, attrs=(), children=(),
            tag='DW_TAG_compile_unit'):
    """A root DIE the way libdw likes it: DW_AT_name, DW_AT_comp_dir, DW_AT_low_pc (the base address for location
    and range lists; None leaves it out) and DW_AT_stmt_list when a LineTable is given, then ATTRS."""
    at = [Attr('DW_AT_name', 'DW_FORM_string', name), Attr('DW_AT_comp_dir', 'DW_FORM_string', comp_dir)]
    if low_pc is not None:
        at.append(Attr('DW_AT_low_pc', 'DW_FORM_addr', low_pc))
    if line_table is not None:
        at.append(Attr('DW_AT_stmt_list', secptr_form(version, offset_size), line_table))
    return Die(tag, at + list(attrs), children)


# DWARF 5 list entry kind -> (DW_LLE_/DW_RLE_ suffix, operands (A address, U ULEB), carries an expression)
_LIST_ENTRIES = {'pair': ('offset_pair', 'UU', True), 'base': ('base_address', 'A', False),
                 'start_end': ('start_end', 'AA', True), 'start_length': ('start_length', 'AU', True),
                 'default': ('default_location', '', True), 'base_addressx': ('base_addressx', 'U', False),
                 'startx_endx': ('startx_endx', 'UU', True), 'startx_length': ('startx_length', 'UU', True)}


class LocList:
    """entries: ('pair', begin, end, ops) | ('base', addr) and for DWARF 5 units also ('start_end', b, e, ops),
    ('start_length', b, len, ops), ('default', ops), ('base_addressx', idx), ('startx_endx', i, j, ops),
    ('startx_length', i, len, ops).  ops: list of op tuples or encoded bytes.
    Units of version 2-4 put it into .debug_loc (address-size pairs, 2-byte expression length, base selection
    entry (all-ones, addr), terminator (0, 0)); version 5 units into .debug_loclists (one header per unit
    that uses lists, offset_entry_count 0, DW_LLE_* entries, DW_LLE_end_of_list).
    terminated=False leaves the terminator out.  After layout: .offset, .section, .size, .unit,
    .expr_offsets (section offset of each entry's expression bytes, None for entries without one)."""
    _old, _new = '.debug_loc', '.debug_loclists'

    def __init__(self, entries, terminated=True):
        self.entries, self.terminated = list(entries), terminated
        self.offset = self.section = self.size = self.unit = None
        self.expr_offsets = []

    def ranges(self, base=0):
        """[(low, high, ops)] as a consumer applying base-address rules sees it (the x-forms are skipped);
        a default entry gives (0, 2**64-1, ops) as libdw does."""
        out = []
        for e in self.entries:
            k = e[0]
            if k == 'base':
                base = e[1]
            elif k == 'pair':
                out.append((base + e[1], base + e[2]) + tuple(e[3:]))
            elif k == 'start_end':
                out.append((e[1], e[2]) + tuple(e[3:]))
            elif k == 'start_length':
                out.append((e[1], e[1] + e[2]) + tuple(e[3:]))
            elif k == 'default':
                out.append((0, (1 << 64) - 1) + tuple(e[1:]))
        return out


class RangeList(LocList):
    """Like LocList without expressions: ('pair', b, e) | ('base', a) | v5: ('start_end', b, e),
    ('start_length', b, len), ('base_addressx', i), ('startx_endx', i, j), ('startx_length', i, len);
    .debug_ranges for version 2-4 units, .debug_rnglists for version 5."""
    _old, _new = '.debug_ranges', '.debug_rnglists'


class LineTable:
    """A minimal valid .debug_line contribution: header with the given directory and file tables and a
    line number program (default: DW_LNE_set_address 0; DW_LNE_end_sequence).
    dirs: [bytes]; files: [bytes | (name, dir_index[, mtime[, length]])].
    version None = the version of the first unit that refers to it (2, 3, 4 or 5); str_form (v5 only):
    DW_FORM_string (default) or DW_FORM_line_strp / DW_FORM_strp for the path names.
    After layout: .offset, .size, .version, .unit."""

    def __init__(self, dirs=(), files=(), version=None, str_form=None, program=None):
        self.dirs = list(dirs)
        self.files = [(f, 0, 0, 0) if isinstance(f, bytes) else (tuple(f) + (0, 0, 0))[:4] for f in files]
        self.req_version, self.str_form, self.program = version, cst(str_form), program
        self.offset = self.size = self.version = self.unit = None

    def path(self, index, comp_dir=b''):
        """File INDEX as libdw's dwarf_filesrc (dwgrep's @AT_decl_file) reports it: the name if it is absolute,
        else directory + '/' + name, the directory taken as stored (a relative directory is NOT prefixed with
        the compilation directory).  Versions 2-4: directory 0 is COMP_DIR, index 0 gives b'???' (libdw 0.188);
        version 5: both tables are used as stored.  Out of range -> None (libdw returns NULL without setting
        an error)."""
        v = self.version if self.version is not None else (self.req_version or 4)
        if v < 5:
            if index == 0:
                return b'???'
            if index < 0 or index > len(self.files):
                return None
            name, di = self.files[index - 1][:2]
            d = comp_dir if di == 0 else (self.dirs[di - 1] if di <= len(self.dirs) else b'')
        else:
            if index < 0 or index >= len(self.files):
                return None
            name, di = self.files[index][:2]
            d = self.dirs[di] if di < len(self.dirs) else b''
        return name if name.startswith(b'/') or not d else d + b'/' + name


class Sym:
    """ELF symbol.  shndx: 0 = SHN_UNDEF, 0xfff1 = SHN_ABS, 0xfff2 = SHN_COMMON, an index, or a Section
    object.  other is the whole st_other byte (visibility = other & 3).  After layout: .index."""

    def __init__(self, name=b'', value=0, size=0, type=0, bind=0, other=0, shndx=0xfff1):
        self.name, self.value, self.size = name, value, size
        self.type, self.bind, self.other, self.shndx = cst(type), cst(bind), cst(other), shndx
        self.index = None

    @property
    def visibility(self):
        return self.other & 3


class Section:
    """An extra section, written verbatim.  Extra sections get indices 1..n in the given order, the generated
    ones follow.  size: sh_size for SHT_NOBITS.  After layout: .index, .file_offset."""

    def __init__(self, name, data=b'', sh_type=1, flags=0, addr=0, addralign=1, entsize=0, link=0, info=0, size=None):
        self.name, self.data, self.sh_type, self.flags, self.addr = name, bytes(data), cst(sh_type), flags, addr
        self.addralign, self.entsize, self.link, self.info, self.size = addralign, entsize, link, info, size
        self.index = self.file_offset = None


# --------------------------------------------------------------------------
# DWARF expressions
# --------------------------------------------------------------------------

_OPSPEC = {}


def _ops(spec, names):
    for n in names.split():
        if 'DW_OP_' + n in DW:
            _OPSPEC[DW['DW_OP_' + n]] = tuple(spec.split())


_ops('addr', 'addr')
_ops('u1', 'const1u pick deref_size xderef_size')
_ops('s1', 'const1s')
_ops('u2', 'const2u')
_ops('s2', 'const2s skip bra')
_ops('u4', 'const4u')
_ops('s4', 'const4s')
_ops('u8', 'const8u')
_ops('s8', 'const8s')
_ops('U', 'constu plus_uconst regx piece addrx constx GNU_addr_index GNU_const_index')
_ops('S', 'consts fbreg ' + ' '.join('breg%d' % i for i in range(32)))
_ops('U S', 'bregx')
_ops('U U', 'bit_piece')
_ops('blk', 'implicit_value')
_ops('expr', 'entry_value GNU_entry_value')
_ops('ref2', 'call2')
_ops('ref4', 'call4 GNU_parameter_ref')
_ops('refo', 'call_ref GNU_variable_value')
_ops('refo S', 'implicit_pointer GNU_implicit_pointer')
_ops('refU', 'convert reinterpret GNU_convert GNU_reinterpret')
_ops('refU cblk', 'const_type GNU_const_type')
_ops('U refU', 'regval_type GNU_regval_type')
_ops('u1 refU', 'deref_type GNU_deref_type xderef_type')
for _n, _v in FAMILIES['DW_OP'].items():
    if _n != 'DW_OP_GNU_encoded_addr':          # no standard operand encoding
        _OPSPEC.setdefault(_v, ())
OP_OPERANDS = _OPSPEC   # opcode -> tuple of operand kinds


def _ref_target(x):
    """(absolute offset or 0 while unknown, unit offset or 0) of a Die / End operand."""
    if isinstance(x, End):
        off, u = x.die.end_offset, x.die.unit
    else:
        off, u = x.offset, x.unit
    return (off or 0), ((u.offset or 0) if u is not None else 0), u


def _encode_ops(ops, address_size, offset_size, version, unit=None):
    out = bytearray()
    decoded = []
    refo_size = address_size if version == 2 else offset_size
    for op in ops:
        if isinstance(op, int) or isinstance(op, str):
            op = (op,)
        opc = cst(op[0])
        args = list(op[1:])
        start = len(out)
        out.append(opc)
        spec = _OPSPEC.get(opc)
        vals = []
        if spec is None:                                   # unknown opcode: operands are raw bytes
            for a in args:
                out += a
                vals.append(bytes(a))
            decoded.append((start, opc, tuple(vals)))
            continue
        if len(args) != len(spec):
            raise ValueError('%s takes %d operands, got %r' % (dw_name('DW_OP', opc), len(spec), args))
        for kind, a in zip(spec, args):
            if kind[0] in 'us' and kind[1:].isdigit():
                n = int(kind[1:])
                out += uint(a, n)
                a &= (1 << (8 * n)) - 1
                vals.append(a - (1 << (8 * n)) if kind[0] == 's' and a >> (8 * n - 1) else a)
            elif kind == 'U':
                out += uleb(a)
                vals.append(a)
            elif kind == 'S':
                out += sleb(a)
                vals.append(a)
            elif kind == 'addr':
                out += uint(a, address_size)
                vals.append(a & ((1 << (8 * address_size)) - 1))
            elif kind == 'blk':
                out += uleb(len(a)) + a
                vals.append(bytes(a))
            elif kind == 'cblk':
                out += bytes([len(a)]) + a
                vals.append(bytes(a))
            elif kind == 'expr':
                if not isinstance(a, (bytes, bytearray)):
                    a = _encode_ops(a, address_size, offset_size, version, unit)[0]
                out += uleb(len(a)) + a
                vals.append(bytes(a))
            else:                                          # DIE references
                if isinstance(a, (Die, End)):
                    absoff, uoff, tu = _ref_target(a)
                    if kind != 'refo':
                        if unit is not None and tu is not None and tu is not unit:
                            raise ValueError('%s: unit-relative reference to a DIE of another unit'
                                             % dw_name('DW_OP', opc))
                        a = max(absoff - uoff, 0)
                    else:
                        a = absoff
                if kind == 'ref2':
                    out += uint(a, 2)
                elif kind == 'ref4':
                    out += uint(a, 4)
                elif kind == 'refo':
                    out += uint(a, refo_size)
                else:
                    out += uleb(a)
                vals.append(a)
        decoded.append((start, opc, tuple(vals)))
    return bytes(out), [d[0] for d in decoded], decoded


def encode_ops(ops, address_size=8, offset_size=4, version=4, unit=None):
    """Encode [(opcode, operand...), ...] -> (bytes, [byte offset of each op]).
    Operand kinds per opcode are in OP_OPERANDS: uN/sN fixed width, U/S LEB128, addr, blk (ULEB length + bytes),
    cblk (1-byte length + bytes), expr (ULEB length + nested op list or bytes), ref2/ref4/refU unit-relative DIE
    reference (2/4 bytes/ULEB), refo section-relative DIE reference of offset size (address size in DWARF 2).
    Reference operands are Die/End objects (resolved from their current .offset) or raw ints.
    A bare opcode (int or str) stands for an operand-less op.  Opcodes unknown to dwarf.h (and
    DW_OP_GNU_encoded_addr) take raw bytes operands that are copied verbatim."""
    return _encode_ops(ops, address_size, offset_size, version, unit)[:2]


def resolve_ops(ops, address_size=8, offset_size=4, version=4, unit=None):
    """[(offset, opcode, (operand values as a decoder reads them back))]: signed/unsigned ints, DIE references
    as encoded (unit-relative or absolute), blocks and nested expressions as bytes."""
    return _encode_ops(ops, address_size, offset_size, version, unit)[2]


# --------------------------------------------------------------------------
# ELF file
# --------------------------------------------------------------------------


class _Pool:
    def __init__(self, dedup=True):
        self.data, self.index, self.dedup = bytearray(), {}, dedup

    def add(self, s):
        if b'\0' in s:
            raise ValueError('NUL in string %r' % s)
        if self.dedup and s in self.index:
            return self.index[s]
        off = len(self.data)
        self.index[s] = off
        self.data += s + b'\0'
        return off


class ElfFile:
    """units, symbols (the null symbol 0 is added automatically; with_symtab=None writes .symtab iff symbols
    is non-empty, True forces a table holding just the null symbol), e_machine, e_type, extra sections.
    symtab_info: sh_info of .symtab (default: index of the first non-STB_LOCAL symbol).
    write(path)/tobytes() lay everything out and fill the offsets in the model.
    After layout: .section_data {name: bytes} of generated sections, .section_index {name: index},
    .abbrev_tables (in .debug_abbrev order), .loclists/.rangelists/.linetables (placed objects in section order)."""

    def __init__(self, units=(), symbols=(), e_machine=62, e_type=1, sections=(), with_symtab=None,
                 symtab_info=None, e_flags=0, ei_osabi=0, str_dedup=True):
        self.units, self.symbols, self.sections = list(units), list(symbols), list(sections)
        self.e_machine, self.e_type = cst(e_machine), cst(e_type)
        self.with_symtab, self.symtab_info, self.e_flags, self.ei_osabi = with_symtab, symtab_info, e_flags, ei_osabi
        self.str_dedup = str_dedup
        self.section_data, self.section_index = {}, {}

    def all_dies(self):
        for u in self.units:
            yield from u.root.walk()

    # ---- DWARF layout ---------------------------------------------------
    def _link(self):
        seen = set()
        tables = []
        for u in self.units:
            if u.abbrev_table not in tables:
                tables.append(u.abbrev_table)
            stack = [(u.root, None)]
            while stack:
                d, p = stack.pop()
                if id(d) in seen:
                    raise ValueError('%r occurs twice in the model' % d)
                seen.add(id(d))
                d.unit, d.parent = u, p
                d.offset = d.end_offset = None
                if d.children and d.children_flag is False:
                    raise ValueError('%r has children but children_flag=False' % d)
                for a in d.attrs:
                    if a.indirect and a.form == F['DW_FORM_implicit_const']:
                        raise ValueError('DW_FORM_implicit_const cannot be indirect')
                    for v in (a.value,):
                        if isinstance(v, LocList):
                            v.offset = None
                        if isinstance(v, LineTable):
                            v.offset = None
                stack.extend((c, d) for c in d.children)
            u.offset = u.next_offset = u.abbrev_offset = None
        order = getattr(self, 'abbrev_order', None)
        if order is not None:
            # placement of the tables in .debug_abbrev, as a permutation of their first-use order
            tables = [tables[i] for i in order]
        self.abbrev_tables = tables
        for t in tables:
            t.offset = None

    def _pass(self):
        c = self._c = type('Ctx', (), {})()
        c.sec = {n: bytearray() for n in ('.debug_info', '.debug_loc', '.debug_loclists', '.debug_ranges',
                                          '.debug_rnglists', '.debug_line')}
        c.str, c.line_str = _Pool(self.str_dedup), _Pool(self.str_dedup)
        c.placed, c.open_hdr, c.state = {}, {}, []
        c.lists = {'loc': [], 'rng': [], 'line': []}
        for t in self.abbrev_tables:
            t.abbrevs, t._index = [], {}
        for u in self.units:
            self._unit(u)
        ab = bytearray()
        for t in self.abbrev_tables:
            ab += t._encode(len(ab))
            c.state.append(t.offset)
        c.sec['.debug_abbrev'] = ab
        c.sec['.debug_str'], c.sec['.debug_line_str'] = c.str.data, c.line_str.data
        return c

    def _unit(self, u):
        c = self._c
        info = c.sec['.debug_info']
        u.offset = len(info)
        v5 = u.version >= 5
        ut = u.effective_unit_type()
        extra = 0
        if v5 and ut in (DW['DW_UT_type'], DW['DW_UT_split_type']):
            extra = 8 + u.offset_size
        elif v5 and ut in (DW['DW_UT_skeleton'], DW['DW_UT_split_compile']):
            extra = 8
        lenfield = 4 if u.offset_size == 4 else 12
        u.header_size = lenfield + 2 + u.offset_size + 1 + (1 if v5 else 0) + extra
        info += b'\0' * u.header_size
        c.state.append(u.offset)
        u.dies = []
        table = u.abbrev_table
        stack = [(iter([u.root]), None)]
        while stack:
            it, parent = stack[-1]
            d = next(it, None)
            if d is None:
                stack.pop()
                if parent is not None:
                    info.append(0)
                    parent.end_offset = len(info)
                continue
            d.offset = len(info)
            c.state.append(d.offset)
            u.dies.append(d)
            d.has_children = bool(d.children) if d.children_flag is None else bool(d.children_flag)
            key = (d.tag, d.has_children,
                   tuple((a.name, F['DW_FORM_indirect'] if a.indirect else a.form,
                          a.value if a.form == F['DW_FORM_implicit_const'] and not a.indirect else None)
                         for a in d.attrs))
            d.abbrev = table._get(key)
            d.abbrev_code = d.abbrev.code
            info += uleb(d.abbrev_code)
            for a in d.attrs:
                if a.indirect:
                    info += uleb(a.form)
                a.offset = len(info)
                a.encoded = self._value(a, u)
                info += a.encoded
            if d.has_children:
                stack.append((iter(d.children), d))
            else:
                d.end_offset = len(info)
        u.next_offset = len(info)
        # close open list headers of this unit
        for sec, pos in c.open_hdr.items():
            buf = c.sec[sec]
            if u.offset_size == 4:
                buf[pos:pos + 4] = uint(len(buf) - pos - 4, 4)
            else:
                buf[pos + 4:pos + 12] = uint(len(buf) - pos - 12, 8)
        c.open_hdr = {}
        # unit header
        length = u.next_offset - u.offset - lenfield
        h = (uint(length, 4) if u.offset_size == 4 else b'\xff\xff\xff\xff' + uint(length, 8)) + uint(u.version, 2)
        u.abbrev_offset = table.offset
        aboff = uint(table.offset or 0, u.offset_size)
        if v5:
            h += bytes([ut, u.address_size]) + aboff
            if extra > 8:
                td = u.type_die
                if isinstance(td, (Die, End)):
                    td = max(_ref_target(td)[0] - u.offset, 0)
                h += uint(u.type_signature, 8) + uint(td, u.offset_size)
            elif extra:
                h += uint(u.dwo_id, 8)
        else:
            h += aboff + bytes([u.address_size])
        assert len(h) == u.header_size
        info[u.offset:u.offset + u.header_size] = h

    def _expr(self, v, u):
        if isinstance(v, (bytes, bytearray)):
            return bytes(v)
        return _encode_ops(v, u.address_size, u.offset_size, u.version, u)[0]

    def _value(self, a, u):
        c, form, v = self._c, a.form, a.value
        osz = u.offset_size
        if isinstance(v, (LocList, LineTable)):
            v = self._place(v, u)
        if form in _REFN or form == F['DW_FORM_ref_udata'] or form == F['DW_FORM_ref_addr']:
            if isinstance(v, (Die, End)):
                absoff, _, tu = _ref_target(v)
                if form != F['DW_FORM_ref_addr'] and tu is not u:
                    raise ValueError('%r: unit-relative reference to a DIE of another unit' % a)
                a.resolved = absoff
                v = max(absoff - u.offset, 0) if form != F['DW_FORM_ref_addr'] else absoff
            else:
                a.resolved = v + u.offset if form != F['DW_FORM_ref_addr'] else v
            if form in _REFN:
                return uint(v, _REFN[form])
            if form == F['DW_FORM_ref_udata']:
                return uleb(v)
            return uint(v, u.address_size if u.version == 2 else osz)
        if form in _FIXED:
            n = _FIXED[form]
            a.resolved = int(v) & ((1 << (8 * n)) - 1)
            return uint(int(v), n)
        if form in _OFFSZ:
            a.resolved = v & ((1 << (8 * osz)) - 1)
            return uint(v, osz)
        if form == F['DW_FORM_addr']:
            a.resolved = v & ((1 << (8 * u.address_size)) - 1)
            return uint(v, u.address_size)
        if form in _ULEB:
            a.resolved = v
            return uleb(v)
        if form == F['DW_FORM_sdata']:
            a.resolved = v
            return sleb(v)
        if form == F['DW_FORM_string']:
            if b'\0' in v:
                raise ValueError('NUL in string %r' % v)
            a.resolved = bytes(v)
            return bytes(v) + b'\0'
        if form in (F['DW_FORM_strp'], F['DW_FORM_line_strp']):
            if isinstance(v, int):
                a.resolved = v
                return uint(v, osz)
            a.resolved = bytes(v)
            pool = c.str if form == F['DW_FORM_strp'] else c.line_str
            return uint(pool.add(bytes(v)), osz)
        if form in _BLOCKN:
            b = self._expr(v, u)
            a.resolved = b
            return uint(len(b), _BLOCKN[form]) + b
        if form in (F['DW_FORM_block'], F['DW_FORM_exprloc']):
            b = self._expr(v, u)
            a.resolved = b
            return uleb(len(b)) + b
        if form == F['DW_FORM_data16']:
            b = v if isinstance(v, (bytes, bytearray)) else uint(v, 16)
            if len(b) != 16:
                raise ValueError('data16 needs 16 bytes')
            a.resolved = bytes(b)
            return bytes(b)
        if form == F['DW_FORM_flag_present']:
            a.resolved = True
            return b''
        if form == F['DW_FORM_implicit_const']:
            a.resolved = v
            return b''
        raise ValueError('cannot encode form %s' % dw_name('DW_FORM', form, hex(form)))

    def _place(self, obj, u):
        """Put a LocList/RangeList/LineTable into its section (once); return its offset."""
        c = self._c
        if id(obj) in c.placed:
            return obj.offset
        c.placed[id(obj)] = obj
        if isinstance(obj, LineTable):
            buf = c.sec['.debug_line']
            obj.offset, obj.unit = len(buf), u
            buf += self._line(obj, u)
            obj.size = len(buf) - obj.offset
            c.lists['line'].append(obj)
            c.state.append(obj.offset)
            return obj.offset
        new = u.version >= 5
        rng = isinstance(obj, RangeList)
        sec = obj._new if new else obj._old
        buf = c.sec[sec]
        asz, osz = u.address_size, u.offset_size
        if new and sec not in c.open_hdr:
            c.open_hdr[sec] = len(buf)
            buf += (b'\0' * 4 if osz == 4 else b'\xff' * 4 + b'\0' * 8) + uint(5, 2) + bytes([asz, 0]) + uint(0, 4)
        obj.offset, obj.section, obj.unit = len(buf), sec, u
        obj.expr_offsets = []
        K, P = (DW_RLE, 'DW_RLE_') if rng else (DW_LLE, 'DW_LLE_')
        for e in obj.entries:
            k = e[0]
            if not new:
                if k not in ('pair', 'base'):
                    raise ValueError('%r entry not possible in %s' % (k, sec))
                enc, has_x = ('AA', True) if k == 'pair' else ('A', False)
                buf += b'\xff' * asz if k == 'base' else b''
            else:
                if k not in _LIST_ENTRIES or (rng and k == 'default'):
                    raise ValueError('unknown list entry %r' % (e,))
                code, enc, has_x = _LIST_ENTRIES[k]
                buf.append(K[P + code])
            for t, x in zip(enc, e[1:]):
                buf += uint(x, asz) if t == 'A' else uleb(x)
            if len(e) != 1 + len(enc) + (1 if has_x and not rng else 0):
                raise ValueError('malformed list entry %r' % (e,))
            if has_x and not rng:
                b = self._expr(e[-1], u)
                buf += uleb(len(b)) if new else uint(len(b), 2)
                obj.expr_offsets.append(len(buf))
                buf += b
            else:
                obj.expr_offsets.append(None)
        if obj.terminated:
            buf += bytes([0]) if new else b'\0' * (2 * asz)
        obj.size = len(buf) - obj.offset
        c.lists['rng' if rng else 'loc'].append(obj)
        c.state.append(obj.offset)
        return obj.offset

    def _line(self, lt, u):
        c = self._c
        v = lt.req_version or min(max(u.version, 2), 5)
        lt.version = v
        osz = u.offset_size
        opcode_base = 10 if v == 2 else 13
        std_len = [0, 1, 1, 1, 1, 0, 0, 0, 1, 0, 0, 1][:opcode_base - 1]
        body = bytes([1]) + (bytes([1]) if v >= 4 else b'') + bytes([1, 0xfb, 14, opcode_base]) + bytes(std_len)
        if v < 5:
            for d in lt.dirs:
                body += d + b'\0'
            body += b'\0'
            for name, di, mt, ln in lt.files:
                body += name + b'\0' + uleb(di) + uleb(mt) + uleb(ln)
            body += b'\0'
        else:
            sf = lt.str_form or F['DW_FORM_string']

            def path(s):
                if sf == F['DW_FORM_string']:
                    return s + b'\0'
                return uint((c.line_str if sf == F['DW_FORM_line_strp'] else c.str).add(s), osz)
            body += bytes([1]) + uleb(DW['DW_LNCT_path']) + uleb(sf) + uleb(len(lt.dirs))
            for d in lt.dirs:
                body += path(d)
            body += (bytes([2]) + uleb(DW['DW_LNCT_path']) + uleb(sf) + uleb(DW['DW_LNCT_directory_index'])
                     + uleb(F['DW_FORM_udata']) + uleb(len(lt.files)))
            for name, di, mt, ln in lt.files:
                body += path(name) + uleb(di)
        prog = lt.program
        if prog is None:
            prog = bytes([0, 1 + u.address_size, 2]) + b'\0' * u.address_size + bytes([0, 1, 1])
        rest = uint(v, 2) + (bytes([u.address_size, 0]) if v >= 5 else b'') + uint(len(body), osz) + body + prog
        return (uint(len(rest), 4) if osz == 4 else b'\xff' * 4 + uint(len(rest), 8)) + rest

    def layout(self):
        """Lay the DWARF sections out (fixpoint over offsets); returns {section name: bytes}."""
        self._link()
        prev = None
        for _ in range(64):
            c = self._pass()
            if c.state == prev:
                break
            prev = c.state
        else:
            raise RuntimeError('layout does not converge')
        self.loclists, self.rangelists, self.linetables = c.lists['loc'], c.lists['rng'], c.lists['line']
        out = {n: bytes(b) for n, b in c.sec.items() if b}
        if not self.units:
            out.pop('.debug_abbrev', None)
        for ref in self._dangling():
            raise ValueError('reference to %r which is not part of the file' % ref)
        return out

    def _dangling(self):
        for d in self.all_dies():
            for a in d.attrs:
                v = a.value.die if isinstance(a.value, End) else a.value
                if isinstance(v, Die) and (v.unit is None or v.unit not in self.units or v.offset is None):
                    yield v

    # ---- ELF ------------------------------------------------------------
    def tobytes(self):
        dw = self.layout()
        secs = []     # (name, type, flags, addr, data, link, info, align, entsize, size)
        for s in self.sections:
            if s.name in dw:
                raise ValueError('extra section %s collides with a generated one' % s.name)
            secs.append([s.name, s.sh_type, s.flags, s.addr, s.data, s.link, s.info, s.addralign, s.entsize,
                         s.size if s.size is not None else len(s.data)])
            s.index = len(secs)
        order = ['.debug_abbrev', '.debug_info', '.debug_str', '.debug_line_str', '.debug_line', '.debug_loc',
                 '.debug_loclists', '.debug_ranges', '.debug_rnglists']
        for n in order:
            if n in dw:
                strsec = n in ('.debug_str', '.debug_line_str')
                secs.append([n, 1, 0x30 if strsec else 0, 0, dw[n], 0, 0, 1, 1 if strsec else 0, len(dw[n])])
        want_sym = self.with_symtab if self.with_symtab is not None else bool(self.symbols)
        if want_sym:
            strtab = _Pool()
            strtab.add(b'')
            symdata = bytearray(24)
            first_global = None
            for i, s in enumerate(self.symbols, 1):
                s.index = i
                shndx = s.shndx.index if isinstance(s.shndx, Section) else s.shndx
                if s.bind != 0 and first_global is None:
                    first_global = i
                symdata += struct.pack('<IBBHQQ', strtab.add(s.name), (s.bind << 4) | (s.type & 15), s.other,
                                       shndx, s.value & (2**64 - 1), s.size)
            if first_global is None:
                first_global = len(self.symbols) + 1
            info = self.symtab_info if self.symtab_info is not None else first_global
            secs.append(['.symtab', 2, 0, 0, bytes(symdata), len(secs) + 2, info, 8, 24, len(symdata)])
            secs.append(['.strtab', 3, 0, 0, bytes(strtab.data), 0, 0, 1, 0, len(strtab.data)])
        shstr = _Pool()
        shstr.add(b'')
        names = [shstr.add(s[0].encode() if isinstance(s[0], str) else s[0]) for s in secs]
        shname = shstr.add(b'.shstrtab')
        secs.append(['.shstrtab', 3, 0, 0, bytes(shstr.data), 0, 0, 1, 0, len(shstr.data)])
        names.append(shname)
        out = bytearray(64)
        shdrs = [bytes(64)]
        self.section_index, self.section_data = {}, {}
        for i, (s, nm) in enumerate(zip(secs, names), 1):
            name, typ, flags, addr, data, link, info, align, entsize, size = s
            if align > 1 and len(out) % align:
                out += b'\0' * (align - len(out) % align)
            off = len(out)
            if typ != 8:                                   # SHT_NOBITS occupies no file space
                out += data
            shdrs.append(struct.pack('<IIQQQQIIQQ', nm, typ, flags, addr, off, size, link, info, align, entsize))
            key = name if isinstance(name, str) else name.decode('latin-1')
            self.section_index.setdefault(key, i)
            self.section_data.setdefault(key, data)
            if i <= len(self.sections):
                self.sections[i - 1].file_offset = off
        if len(out) % 8:
            out += b'\0' * (8 - len(out) % 8)
        shoff = len(out)
        out += b''.join(shdrs)
        out[:64] = (b'\x7fELF' + bytes([2, 1, 1, self.ei_osabi]) + bytes(8)
                    + struct.pack('<HHIQQQIHHHHHH', self.e_type, self.e_machine, 1, 0, 0, shoff, self.e_flags,
                                  64, 0, 0, 64, len(shdrs), len(shdrs) - 1))
        return bytes(out)

    def write(self, path):
        data = self.tobytes()
        with open(path, 'wb') as f:
            f.write(data)
        return data
