"""Program spaces over the Z_K transformers of DESIGN.md §2.2 (K = 3).

Every fragment T maps "an int of Z_3 on TOS" to 0..n stacks with an int of Z_3
on TOS, so all fragments compose in every context and every closure has a
finite reachable set.
"""
import itertools

K = 3


def I(v, radix="dec"):
    return ("int", v, radix)


def W(w):
    return ("w", w)


def cat(*ns):
    out = []
    for n in ns:
        if n[0] == "cat":
            out.extend(n[1])
        else:
            out.append(n)
    return ("cat", out)


ATOMS = {
    "inc": cat(I(1), W("add"), I(K), W("mod")),
    "dbl": cat(I(2), W("mul"), I(K), W("mod")),
    "zero": cat(W("drop"), I(0)),
    "?z": ("sub", True, [], cat(I(0), W("?eq"))),
    "!z": ("sub", False, [], cat(I(0), W("?eq"))),
    "never": ("sub", False, [], cat()),
    "id": cat(),
    # identities that route the value through sequences: a literal `[]` stored in the query and a sequence that
    # has another live copy are the LEFT operand of `add` (which must not modify its operands)
    "app": ("par", ["A"], cat(("elist",), ("cap", [], ("rd", "A")), W("add"), W("elem"))),
    "app2": ("par", ["A"], cat(("cap", [], ("rd", "A")), ("par", ["S"], cat(("rd", "S"), ("cap", [], cat(("rd", "A"), I(1), W("add"), I(K), W("mod"))), W("add"), W("drop"), ("rd", "S"))), W("elem"))),
}


def strval():
    # string "0"/"1"/"2" on TOS -> the int it denotes
    return ("par", ["S"], ("alt", [cat(("infix", "==", ("rd", "S"), ("str", b"%d" % v)), I(v)) for v in range(K)]))


UNARY = {
    "star": lambda t: ("star", t),
    "plus": lambda t: ("plus", t),
    "opt": lambda t: ("opt", t),
    "capelem": lambda t: cat(("cap", [], t), W("elem"), W("swap"), W("drop")),
    "caprelem": lambda t: cat(("cap", [], t), W("relem"), W("swap"), W("drop")),
    "?sub": lambda t: ("sub", True, [], t),
    "!sub": lambda t: ("sub", False, [], t),
    "bindpar": lambda t: ("par", ["A"], cat(("rd", "A"), t)),
    "let": lambda t: ("par", ["P"], cat(("rd", "P"), ("let", ["A"], t), W("drop"), ("rd", "A"))),
    # a let body that reworks the incoming slot and ends one deeper: the slot below must come out untouched
    "letdup": lambda t: ("par", ["P"], cat(("rd", "P"), ("let", ["A"], cat(t, W("dup"))), ("rd", "A"),
                                          ("par", ["X", "Y"], cat(("rd", "X"), ("rd", "Y"), W("add"), I(K), W("mod"))))),
    "block": lambda t: cat(("block", [], t), W("apply")),
    "fmtv": lambda t: ("par", ["A"], cat(("fmt", [("splice", cat(("rd", "A"), t))]), strval())),
    "fmtp": lambda t: ("par", ["A"], cat(("fmt", [b"x", ("splice", cat(("rd", "A"), t)), b"y"]), W("pos"), I(K), W("mod"), W("value"))),
    # a multi-yield splice with a long literal and another splice to its right (the text right of a splice is kept
    # across the alternatives of that splice)
    "fmtlong": lambda t: ("par", ["A"], cat(("fmt", [b"<", ("splice", cat(("rd", "A"), t)), b"0123456789abcdefgh", ("splice", ("rd", "A")), b">"]),
                                            W("length"), ("rd", "A"), W("add"), I(K), W("mod"))),
    "capbind": lambda t: cat(("cap", ["A"], cat(("rd", "A"), t)), W("elem")),
    "parens": lambda t: ("par", [], t),
}
BINARY = {
    "cat": lambda a, b: cat(("par", [], a), ("par", [], b)),
    "alt": lambda a, b: ("alt", [a, b]),
    "or": lambda a, b: ("or", [a, b]),
    "eq": lambda a, b: ("infix", "==", a, b),
    "lt": lambda a, b: ("infix", "<", a, b),
    "fmt2": lambda a, b: ("par", ["A"], cat(("fmt", [("splice", cat(("rd", "A"), a)), b"-", ("splice", cat(("cap", [], cat(("rd", "A"), b, ("par", ["X"], ("fmt", [("splice", ("rd", "X"))])))), W("length")))]),
                                          ("par", ["S"], cat(("rd", "S"), W("length"), I(K), W("mod"))))),
}
TERNARY = {
    "if": lambda c, a, b: ("if", c, a, b),
}


def _defaults(atoms, unary, binary, ternary):
    return (ATOMS if atoms is None else atoms, UNARY if unary is None else unary,
            BINARY if binary is None else binary, TERNARY if ternary is None else ternary)


def iter_size(s, tab, atoms=None, unary=None, binary=None, ternary=None):
    """Yield every (name, ast) of exactly s nodes, given tab[1..s-1]."""
    atoms, unary, binary, ternary = _defaults(atoms, unary, binary, ternary)
    if s == 1:
        for k, v in atoms.items():
            yield k, v
        return
    for un, uf in unary.items():
        for nm, t in tab[s - 1]:
            yield "%s(%s)" % (un, nm), uf(t)
    for s1 in range(1, s - 1):
        s2 = s - 1 - s1
        for bn, bf in binary.items():
            for (n1, t1), (n2, t2) in itertools.product(tab[s1], tab[s2]):
                yield "%s(%s,%s)" % (bn, n1, n2), bf(t1, t2)
    for s1 in range(1, s - 2):
        for s2 in range(1, s - 1 - s1):
            s3 = s - 1 - s1 - s2
            if s3 < 1:
                continue
            for tn, tf in ternary.items():
                for (n1, t1), (n2, t2), (n3, t3) in itertools.product(tab[s1], tab[s2], tab[s3]):
                    yield "%s(%s,%s,%s)" % (tn, n1, n2, n3), tf(t1, t2, t3)


def by_size(smax, atoms=None, unary=None, binary=None, ternary=None):
    """dict size -> list of (name, ast); complete enumeration up to smax nodes."""
    tab = {}
    for s in range(1, smax + 1):
        tab[s] = list(iter_size(s, tab, atoms, unary, binary, ternary))
    return tab


def count_size(s, counts, nu=None, nb=None, nt=None):
    """Number of programs of size s given counts of smaller sizes (for task planning)."""
    nu = len(UNARY) if nu is None else nu
    nb = len(BINARY) if nb is None else nb
    nt = len(TERNARY) if nt is None else nt
    if s == 1:
        return len(ATOMS)
    n = nu * counts[s - 1]
    for s1 in range(1, s - 1):
        n += nb * counts[s1] * counts[s - 1 - s1]
    for s1 in range(1, s - 2):
        for s2 in range(1, s - 1 - s1):
            s3 = s - 1 - s1 - s2
            if s3 >= 1:
                n += nt * counts[s1] * counts[s2] * counts[s3]
    return n


def contexts(sib="inc"):
    """Every one-hole context: each unary constructor, each operand position of each binary / ternary one."""
    s = ATOMS[sib]
    wraps = [(n, f) for n, f in UNARY.items()]
    for bn, bf in BINARY.items():
        wraps.append((bn + "L", lambda t, bf=bf: bf(t, s)))
        wraps.append((bn + "R", lambda t, bf=bf: bf(s, t)))
    wraps.append(("ifC", lambda t: ("if", t, s, ATOMS["dbl"])))
    wraps.append(("ifT", lambda t: ("if", ATOMS["?z"], t, s)))
    wraps.append(("ifE", lambda t: ("if", ATOMS["?z"], s, t)))
    return wraps


def spine(depth, leaves=("inc", "?z"), sib="inc"):
    """Every chain of `depth` constructors, other operands filled with the atom `sib`."""
    wraps = contexts(sib)
    for chain in itertools.product(wraps, repeat=depth):
        for leaf in leaves:
            t = ATOMS[leaf]
            name = leaf
            for wn, wf in reversed(chain):
                t = wf(t)
                name = "%s(%s)" % (wn, name)
            yield name, t


def guarded(progs, depth=1, guards=("?z", "!z")):
    """Every program P behind a guard that rejects some inputs outright, in every chain of `depth` one-hole contexts:
    a sub-expression whose state outlives one feed is fed a stack that dies before reaching P, then one that reaches it."""
    wraps = contexts()
    for chain in itertools.product(wraps, repeat=depth):
        for g in guards:
            for pn, p in progs:
                t = cat(ATOMS[g], ("par", [], p))
                name = "%s;%s" % (g, pn)
                for wn, wf in reversed(chain):
                    t = wf(t)
                    name = "%s(%s)" % (wn, name)
                yield name, t
