"""Ground truth for DWARF queries, computed from an elfgen model (after layout).

Canonical result strings follow zwdrv:
  DIE   D:f<id>:<offset hex>:<r|c>:<import chain offsets, innermost first, '/'-joined>@pos
  unit  U:f<id>:<unit header offset hex>:<r|c>@pos
  attr  A:<name hex>:<form hex>:<r|c>:{<DIE without @pos>}@pos
"""
import elfgen as g

IMPORTED_UNIT = g.DW["DW_TAG_imported_unit"]
PARTIAL_UNIT = g.DW["DW_TAG_partial_unit"]
AT_IMPORT = g.DW["DW_AT_import"]
AT_SPEC = g.DW["DW_AT_specification"]
AT_AO = g.DW["DW_AT_abstract_origin"]
AT_SIBLING = g.DW["DW_AT_sibling"]
AT_DECL = g.DW["DW_AT_declaration"]


def die_txt(fid, die, raw, chain=()):
    return "D:f%d:%x:%s:%s" % (fid, die.offset, "r" if raw else "c", "/".join("%x" % i.offset for i in chain))


def die_canon(fid, die, raw, chain=(), pos=0):
    return die_txt(fid, die, raw, chain) + "@%d" % pos


def unit_canon(fid, unit, raw, pos):
    return "U:f%d:%x:%s@%d" % (fid, unit.offset, "r" if raw else "c", pos)


def attr_canon(fid, attr, form, die, raw, pos, chain=()):
    return "A:%x:%x:%s:{%s}@%d" % (attr, form, "r" if raw else "c", die_txt(fid, die, raw, chain), pos)


def actual_form(a):
    return g.cst(a.form)


def import_target(die):
    """Root DIE of the unit a DW_TAG_imported_unit DIE imports, or None."""
    if g.cst(die.tag) != IMPORTED_UNIT:
        return None
    for a in die.attrs:
        if g.cst(a.name) == AT_IMPORT and isinstance(a.value, g.Die):
            return a.value
    return None


class View:
    def __init__(self, elf, fid=1):
        self.elf, self.fid = elf, fid
        self.units = list(elf.units)

    # ------------------------------------------------------------- raw
    def raw_entries(self):
        return [d for u in self.units for d in u.dies]

    def unit_of(self, die):
        return die.unit

    # ------------------------------------------------------------- cooked
    def cooked_units(self):
        return [u for u in self.units if g.cst(u.root.tag) != PARTIAL_UNIT]

    def _flatten_all(self, die, chain, out, skip_self=False):
        """Pre-order walk of die's subtree with imports inlined (all_dies_iterator + import_partial_units)."""
        tgt = import_target(die)
        if tgt is not None:
            nchain = (die,) + chain
            for c in tgt.children:
                self._flatten_all(c, nchain, out)
            return
        if not skip_self:
            out.append((die, chain))
        for c in die.children:
            self._flatten_all(c, chain, out)

    def cooked_entries_of_unit(self, unit):
        out = []
        self._flatten_all(unit.root, (), out)
        return out

    def cooked_entries(self):
        out = []
        for u in self.cooked_units():
            out += self.cooked_entries_of_unit(u)
        return out

    def cooked_children(self, die, chain=()):
        """Children with imports replaced in place; the chain continues the parent's chain."""
        out = []

        def walk(kids, ch):
            for c in kids:
                tgt = import_target(c)
                if tgt is not None:
                    walk(tgt.children, (c,) + ch)
                else:
                    out.append((c, ch))
        walk(die.children, chain)
        return out

    def cooked_parent(self, die, chain=()):
        """(parent, chain) or None for a root (imports crossed backwards)."""
        p = die.parent
        while p is not None and g.cst(p.tag) == PARTIAL_UNIT and chain:
            imp = chain[0]
            chain = chain[1:]
            p = imp.parent
        if p is None:
            return None
        return p, chain

    def cooked_root(self, die, chain=()):
        if chain:
            return chain[-1].unit.root
        return die.unit.root

    # ------------------------------------------------------------- attributes
    def cooked_attrs(self, die):
        """[(attr, owner die)] own attributes, then integrated ones it lacks."""
        out, seen, stack, secondary = [], set(), [die], False
        guard = 0
        while stack:
            d = stack.pop()
            guard += 1
            if guard > 50:
                break
            for a in d.attrs:
                n = g.cst(a.name)
                if n in (AT_SPEC, AT_AO) and isinstance(a.value, g.Die):
                    stack.append(a.value)
                if secondary and n in (AT_SIBLING, AT_DECL):
                    continue
                if n in seen:
                    continue
                seen.add(n)
                out.append((a, d))
            secondary = True
        return out

    def find_attr(self, die, name, cooked=True):
        for a, owner in (self.cooked_attrs(die) if cooked else [(a, die) for a in die.attrs]):
            if g.cst(a.name) == name:
                return a, owner
        return None
