"""Shared plumbing: context, evidence, known findings, replay files, worker pool."""
import json, os, sys, time, hashlib, multiprocessing, traceback, itertools

VERIF = os.path.dirname(os.path.dirname(os.path.abspath(__file__)))
sys.path.insert(0, os.path.join(VERIF, "lib"))
import build as _build
import drv as _drv

EVID = os.path.join(VERIF, "evidence")
REPLAY = os.path.join(VERIF, "replay")
KNOWN = os.path.join(VERIF, "known_findings.json")


def load_known():
    try:
        with open(KNOWN) as f:
            return json.load(f)
    except FileNotFoundError:
        return {"findings": [], "fixed": []}


class Ctx:
    def __init__(self, pid, tier, seed=0, budget_s=None):
        self.pid, self.tier, self.seed = pid, tier, seed
        self.t0 = time.time()
        self.budget_s = budget_s
        self.deadline = self.t0 + budget_s if budget_s else None
        self.violations = []      # dicts: key, what, case
        self.counts = {}
        self.samples = []
        self.notes = []
        self.exhaustive = True
        self.bins = {}
        self.parts = {}           # name -> dict of part coverage
        self.max_violations = 300

    # ---- build
    def build(self, programs=("zwdrv",), variant="san"):
        r = _build.build(variant, list(programs))
        self.bins.update({(variant, k): v for k, v in r.items()})
        return r

    def bin(self, prog, variant="san"):
        if (variant, prog) not in self.bins:
            self.build([prog], variant)
        return self.bins[(variant, prog)]

    # ---- time
    def expired(self):
        return self.deadline is not None and time.time() > self.deadline

    def remaining(self):
        return None if self.deadline is None else max(0.0, self.deadline - time.time())

    # ---- accounting
    def count(self, k, n=1):
        self.counts[k] = self.counts.get(k, 0) + n

    def merge_counts(self, d):
        for k, v in d.items():
            self.count(k, v)

    def sample(self, s, cap=12):
        if len(self.samples) < cap:
            self.samples.append(s)

    def violation(self, key, what, case):
        """key: stable identification of the failing input/call site (used for known findings)."""
        self.violations.append({"key": key, "what": what, "case": case})

    def incomplete(self, why):
        self.exhaustive = False
        self.notes.append(why)

    # ---- finish
    def finish(self, level, coverage, assumptions, replay_fn=None):
        known = load_known()
        kmap = {}
        for f in known.get("findings", []):
            if f.get("property") == self.pid:
                kmap[f["key"]] = f
        os.makedirs(EVID, exist_ok=True)
        os.makedirs(REPLAY, exist_ok=True)
        # deduplicate by key
        seen, uniq = set(), []
        for v in self.violations:
            if v["key"] in seen:
                continue
            seen.add(v["key"])
            uniq.append(v)
        fresh, knownhit, unrepro = [], [], []
        for v in uniq:
            if v["key"] in kmap:
                knownhit.append(v)
                continue
            if replay_fn is not None and len(fresh) < 25:
                try:
                    a = replay_fn(v["case"])
                    b = replay_fn(v["case"])
                except Exception as e:      # replay machinery failure: keep the alarm
                    a = b = True
                    v["what"] += " [replay raised %r]" % (e,)
                if not (a and b):
                    unrepro.append(v)
                    continue
            fresh.append(v)
        for v in knownhit:
            print("KNOWN-FINDING: property=%s %s" % (self.pid, kmap[v["key"]].get("what", v["what"])))
        for v in unrepro:
            print("NOTE: unreproduced alarm dropped: %s :: %s" % (v["key"], v["what"]))
        out_paths = []
        import glob as _glob
        for old in _glob.glob(os.path.join(REPLAY, self.pid + "-*.json")):
            try:
                os.unlink(old)
            except OSError:
                pass
        for n, v in enumerate(fresh[:50]):
            h = hashlib.sha256(v["key"].encode()).hexdigest()[:10]
            path = os.path.join(REPLAY, "%s-%s.json" % (self.pid, h))
            with open(path, "w") as f:
                json.dump({"property": self.pid, "key": v["key"], "what": v["what"], "case": v["case"]}, f, indent=1)
            out_paths.append(path)
            print("VIOLATION property=%s replay=%s" % (self.pid, path))
            print("  what: %s" % v["what"][:600])
        cov = dict(coverage)
        cov.setdefault("samples", self.samples[:12] or ["(none)"])
        cov.setdefault("exhaustive", self.exhaustive)
        cov["counts"] = self.counts
        if self.notes:
            cov["notes"] = self.notes
        cov["known_findings_hit"] = len(knownhit)
        cov["unreproduced_alarms"] = len(unrepro)
        ev = {
            "property_id": self.pid,
            "tier": self.tier,
            "seed": self.seed,
            "level": level,
            "coverage": cov,
            "assumptions": assumptions,
            "wall_s": round(time.time() - self.t0, 2),
            "violations": len(fresh),
        }
        with open(os.path.join(EVID, self.pid + ".json"), "w") as f:
            json.dump(ev, f, indent=1, default=str)
        print("[%s %s] %s wall=%.1fs violations=%d known=%d exhaustive=%s" % (
            self.pid, self.tier, " ".join("%s=%s" % kv for kv in sorted(self.counts.items())),
            time.time() - self.t0, len(fresh), len(knownhit), cov["exhaustive"]))
        return 1 if fresh else 0


# ---------------------------------------------------------------------------
# worker pool: each worker owns one driver process
_W = {}


def _winit(binary, voc, track, setup, timeout, cmd_timeout=10):
    _W["drv"] = _drv.Drv(binary, voc, track_alloc=track, timeout=timeout, cmd_timeout=cmd_timeout)
    for c in setup:
        _W["drv"].setup(c)
    import atexit
    atexit.register(lambda: _W["drv"].close())


def wdrv():
    return _W["drv"]


def _wcall(args):
    fn, chunk, extra, deadline = args
    if deadline is not None and time.time() > deadline:
        return {"__skipped__": len(chunk)}
    try:
        return fn(_W["drv"], chunk, extra)
    except Exception:
        return {"__exc__": traceback.format_exc()}


def chunks(it, n):
    it = iter(it)
    while True:
        c = list(itertools.islice(it, n))
        if not c:
            return
        yield c


def pmap(ctx, fn, chunk_iter, binary, voc="core", track=False, setup=(), extra=None, procs=16, timeout=20.0, cmd_timeout=10):
    if len(ctx.violations) >= ctx.max_violations:
        return
    """Run fn(drv, chunk, extra) -> dict over chunks on a pool; yields results as they finish.
    Stops feeding when the context deadline expires (marks ctx incomplete)."""
    pool = multiprocessing.Pool(procs, _winit, (binary, voc, track, list(setup), timeout, cmd_timeout))
    try:
        def feed():
            for c in chunk_iter:
                yield (fn, c, extra, ctx.deadline)
        skipped = 0
        for r in pool.imap_unordered(_wcall, feed()):
            if "__exc__" in r:
                raise RuntimeError("worker failed:\n" + r["__exc__"])
            if "__skipped__" in r:
                skipped += r["__skipped__"]
                continue
            yield r
            if len(ctx.violations) >= ctx.max_violations:
                ctx.incomplete("stopped early after %d violations (the verdict is already negative)" % len(ctx.violations))
                break
        if skipped:
            ctx.incomplete("deadline reached: %d cases of this part were not run" % skipped)
            ctx.count("cases_skipped_at_deadline", skipped)
    finally:
        pool.close()
        pool.terminate()
        pool.join()
