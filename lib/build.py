#!/usr/bin/env python3
"""Content-hash keyed rebuild of /repo's *current working tree* for the
verification harnesses.

Variants:
  san  : g++ -O1 -g1 -fsanitize=address,undefined, asserts on, -DDWGREP_VERIF
  fast : g++ -O2, asserts on, -DDWGREP_VERIF, no sanitizers (throughput)

Objects are cached under /verif/.build/obj/<key>.o where key = sha256(flags,
TU text, text of every header / generated file).  Binaries are linked into
/verif/.build/bin/<treekey>-<variant>/.  A flock serialises concurrent builds.
Nothing is kept under /tmp.
"""
import hashlib, os, subprocess, sys, fcntl, glob, shutil, time, json
from concurrent.futures import ThreadPoolExecutor

REPO = os.environ.get("VERIF_REPO", "/repo")
VERIF = os.path.dirname(os.path.dirname(os.path.abspath(__file__)))
BUILD = os.path.join(VERIF, ".build")
OBJ = os.path.join(BUILD, "obj")
GEN = os.path.join(BUILD, "gen")
BIN = os.path.join(BUILD, "bin")
GUARD = "DWGREP_VERIF"

CORE = """bindings build builtin-closure builtin-cmp builtin-cst builtin-shf builtin
constant docstring init int layout libzwerg op overload pred_result scon selector
stack strip tree tree_cr value-closure value-cst value-seq value-str value""".split()
DW = """atval cache coverage dwcst dwfl_context dwit dwmods libzwerg-dw value-aset
builtin-aset value-dw builtin-dw builtin-dw-abbrev builtin-dw-voc value-symbol
builtin-symbol""".split()

COMMON = ["-std=c++14", "-Wno-deprecated-declarations", "-w", "-D" + GUARD, "-fno-omit-frame-pointer"]
VARIANTS = {
    "san": ["-O1", "-g1", "-fsanitize=address,undefined", "-fno-sanitize-recover=undefined"],
    "fast": ["-O2", "-g1"],
}
LINK = {
    "san": ["-fsanitize=address,undefined"],
    "fast": [],
}
LIBS = ["-ldw", "-lelf", "-ldl", "-lpthread"]

# harness programs: name -> (sources under /verif/drv, repo object sets, extra repo TUs)
PROGRAMS = {
    "zwdrv": (["zwdrv.cc"], "all"),
    "dwgrep": ([], "cli"),
    "int_harness": (["int_harness.cc"], ["int"]),
    "cov_harness": (["cov_harness.cc"], ["coverage"]),
    "stack_harness": (["stack_harness.cc"], "core"),
}


def sha(*parts):
    h = hashlib.sha256()
    for p in parts:
        if isinstance(p, str):
            p = p.encode()
        h.update(p)
        h.update(b"\0")
    return h.hexdigest()[:24]


def read(p):
    with open(p, "rb") as f:
        return f.read()


def run(cmd, **kw):
    r = subprocess.run(cmd, stdout=subprocess.PIPE, stderr=subprocess.STDOUT, **kw)
    if r.returncode != 0:
        sys.stderr.write("BUILD FAILED: %s\n%s\n" % (" ".join(cmd), r.stdout.decode(errors="replace")))
        raise SystemExit(3)
    return r.stdout


def generated(genkey_inputs):
    """flex/bison/gawk outputs, keyed by their inputs."""
    key = sha(*genkey_inputs)
    d = os.path.join(GEN, key)
    if os.path.exists(os.path.join(d, ".done")):
        return d
    tmp = d + ".tmp%d" % os.getpid()
    shutil.rmtree(tmp, ignore_errors=True)
    os.makedirs(tmp)
    lz = os.path.join(REPO, "libzwerg")
    run(["flex", "--header-file=" + os.path.join(tmp, "lexer.hh"), "-o", os.path.join(tmp, "lexer.cc"),
         os.path.join(lz, "lexer.ll")])
    run(["bison", "-d", "-o", os.path.join(tmp, "parser.cc"), os.path.join(lz, "parser.yy")])
    with open(os.path.join(tmp, "known-dwarf.h"), "wb") as f:
        f.write(run(["gawk", "-f", os.path.join(REPO, "known-dwarf.awk"), "/usr/include/dwarf.h"]))
    with open(os.path.join(tmp, "known-elf.h"), "wb") as f:
        f.write(run(["gawk", "-f", os.path.join(REPO, "known-elf.awk"), "/usr/include/elf.h"]))
    vh = read(os.path.join(REPO, "version.h.in")).decode()
    vc = read(os.path.join(REPO, "VERSION.cmake")).decode()
    import re
    maj = re.search(r'DWGREP_MAJOR\s+"(\d+)"', vc).group(1)
    mnr = re.search(r'DWGREP_MINOR\s+"(\d+)"', vc).group(1)
    with open(os.path.join(tmp, "version.h"), "w") as f:
        f.write(vh.replace("@DWGREP_MAJOR@", maj).replace("@DWGREP_MINOR@", mnr))
    open(os.path.join(tmp, ".done"), "w").close()
    shutil.rmtree(d, ignore_errors=True)
    os.rename(tmp, d)
    return d


def tree_state():
    lz = os.path.join(REPO, "libzwerg")
    hdrs = sorted(glob.glob(os.path.join(lz, "*.hh")) + glob.glob(os.path.join(lz, "*.h"))
                  + glob.glob(os.path.join(REPO, "dwgrep", "*.hh"))
                  + glob.glob(os.path.join(REPO, "extern", "*.hpp")))
    geninputs = [read(os.path.join(lz, "lexer.ll")), read(os.path.join(lz, "parser.yy")),
                 read(os.path.join(REPO, "known-dwarf.awk")), read(os.path.join(REPO, "known-elf.awk")),
                 read("/usr/include/dwarf.h"), read("/usr/include/elf.h"),
                 read(os.path.join(REPO, "version.h.in")), read(os.path.join(REPO, "VERSION.cmake"))]
    hkey = sha(*[read(h) for h in hdrs], *geninputs)
    return hdrs, geninputs, hkey


def compile_tu(src, variant, hkey, gendir, extra_inc=()):
    flags = COMMON + VARIANTS[variant]
    key = sha(" ".join(flags), read(src), hkey, os.path.basename(src))
    out = os.path.join(OBJ, key + ".o")
    if os.path.exists(out):
        os.utime(out, None)
        return out
    tmp = out + ".tmp%d" % os.getpid()
    inc = ["-I", gendir, "-I", os.path.join(REPO, "libzwerg"), "-I", REPO]
    for i in extra_inc:
        inc += ["-I", i]
    run(["g++"] + flags + inc + ["-c", src, "-o", tmp])
    os.rename(tmp, out)
    return out


def build(variant="san", programs=("zwdrv",), quiet=False):
    """Returns dict program -> path.  Rebuilds whatever /repo's tree changed."""
    os.makedirs(OBJ, exist_ok=True)
    os.makedirs(GEN, exist_ok=True)
    os.makedirs(BIN, exist_ok=True)
    lock = open(os.path.join(BUILD, ".lock"), "w")
    fcntl.flock(lock, fcntl.LOCK_EX)
    try:
        t0 = time.time()
        hdrs, geninputs, hkey = tree_state()
        gendir = generated(geninputs)
        lz = os.path.join(REPO, "libzwerg")
        drvdir = os.path.join(VERIF, "drv")
        drvhdr = sha(*[read(p) for p in sorted(glob.glob(os.path.join(drvdir, "*.hh")))])

        def tu(name):
            if name == "lexer":
                return os.path.join(gendir, "lexer.cc")
            if name == "parser":
                return os.path.join(gendir, "parser.cc")
            return os.path.join(lz, name + ".cc")

        sets = {
            "core": ["lexer", "parser"] + CORE,
            "all": ["lexer", "parser"] + CORE + DW,
        }
        jobs = {}
        for prog in programs:
            srcs, objset = PROGRAMS[prog]
            if objset == "cli":
                names = sets["all"]
                extra = [os.path.join(REPO, "dwgrep", "dwgrep.cc"), os.path.join(REPO, "dwgrep", "options.cc")]
            elif isinstance(objset, str):
                names, extra = sets[objset], []
            else:
                names, extra = objset, []
            tus = [tu(n) for n in names] + extra
            jobs[prog] = (tus, [os.path.join(drvdir, s) for s in srcs])
        alltus = sorted({t for tus, _ in jobs.values() for t in tus})
        alldrv = sorted({t for _, d in jobs.values() for t in d})
        with ThreadPoolExecutor(max_workers=16) as ex:
            futs = {t: ex.submit(compile_tu, t, variant, hkey, gendir) for t in alltus}
            for t in alldrv:
                futs[t] = ex.submit(compile_tu, t, variant, hkey + drvhdr, gendir, (drvdir,))
            objs = {t: f.result() for t, f in futs.items()}
        result = {}
        for prog, (tus, drvs) in jobs.items():
            ol = [objs[t] for t in tus + drvs]
            key = sha(variant, *ol)
            d = os.path.join(BIN, key)
            out = os.path.join(d, prog)
            if not os.path.exists(out):
                os.makedirs(d, exist_ok=True)
                tmp = out + ".tmp%d" % os.getpid()
                run(["g++"] + LINK[variant] + ol + LIBS + ["-o", tmp])
                os.rename(tmp, out)
            os.utime(d, None)
            result[prog] = out
        gc()
        if not quiet:
            sys.stderr.write("[build] variant=%s programs=%s %.1fs\n" % (variant, ",".join(programs), time.time() - t0))
        return result
    finally:
        fcntl.flock(lock, fcntl.LOCK_UN)
        lock.close()


def gc(max_obj_bytes=6 << 30, max_bins=24):
    """Bound the cache: drop least recently used objects / binaries."""
    ents = []
    for p in glob.glob(os.path.join(OBJ, "*.o")):
        st = os.stat(p)
        ents.append((st.st_mtime, st.st_size, p))
    ents.sort(reverse=True)
    tot = 0
    for m, s, p in ents:
        tot += s
        if tot > max_obj_bytes:
            try:
                os.unlink(p)
            except OSError:
                pass
    bins = sorted(glob.glob(os.path.join(BIN, "*")), key=lambda p: os.stat(p).st_mtime, reverse=True)
    for p in bins[max_bins:]:
        shutil.rmtree(p, ignore_errors=True)
    gens = sorted(glob.glob(os.path.join(GEN, "*")), key=lambda p: os.stat(p).st_mtime, reverse=True)
    for p in gens[8:]:
        shutil.rmtree(p, ignore_errors=True)


if __name__ == "__main__":
    import argparse
    ap = argparse.ArgumentParser()
    ap.add_argument("--variant", default="san")
    ap.add_argument("--all", action="store_true")
    ap.add_argument("programs", nargs="*")
    a = ap.parse_args()
    progs = a.programs or ["zwdrv"]
    if a.all:
        drvdir = os.path.join(VERIF, "drv")
        progs = [p for p, (srcs, _) in PROGRAMS.items() if all(os.path.exists(os.path.join(drvdir, s)) for s in srcs)]
        for v in ("san", "fast"):
            r = build(v, progs)
        print(json.dumps(r))
    else:
        print(json.dumps(build(a.variant, progs)))
